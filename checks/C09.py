"""C09 - structural corruption is reported with the matching status code."""
import struct
from vlib import Case, hx
from checks import sbdfgen as G
from checks.tablecases import parse_session, first_error

LEVEL = "proof"
RULE = ("one evaluation = one valid file (reference encoder, library layout or random foreign layout) with exactly one structural "
        "field replaced by a value from the corruption class of its kind (marker byte, section id, counts, lengths, type ids, "
        "encoding id, presence flags, row counts), read in a full session; every field of every generated file x every class; "
        "non-trivial = all of them; distinct = (file, field offset, replacement)")
TRUSTED = ["L1 model coq/*.v", "checks/sbdfgen.py reference encoder and its field map"]
ASSUMES = ["the status named by the property is the status of the first failing call of the session"]

MAGIC, SECTION, INVALID, ARRLEN1, TYPEID, ENCODING, COLMISMATCH, TABLEEND = -20, -13, -21, -6, -3, -5, -19, -1000
KNOWN_TYPES = {1, 2, 3, 4, 5, 6, 7, 8, 9, 10, 12, 13, 254}


def corruptions(rng, kind, old, note, ncols):
    """[(replacement bytes, expected status or a set, description)]"""
    out = []
    neg = [struct.pack("<i", v) for v in (-1, -2147483648, -77)]
    if kind == "marker0":
        out += [(bytes([v]), MAGIC, "marker0") for v in (0, 0xde, 0x5b, 0xff) if bytes([v]) != old]
    elif kind == "marker1":
        out += [(bytes([v]), MAGIC, "marker1") for v in (0, 0x5a, 0xdf, 0xff) if bytes([v]) != old]
    elif kind == "section":
        for v in (0, 1, 2, 3, 4, 5, 6, 255):
            if bytes([v]) == old: continue
            if note == "slice" or note == "end":
                exp = TABLEEND if v == 5 else (None if v == 3 else SECTION)
                if exp is None: continue          # an end marker turned into a slice marker: not a section-kind error
                out.append((bytes([v]), exp, "section@slicepos"))
            else:
                out.append((bytes([v]), SECTION, "section"))
    elif kind in ("entrycount", "arrcount", "slicecols", "strlen", "objlen"):
        out += [(n, INVALID, kind + "<0") for n in neg]
        if kind == "slicecols":
            for v in (ncols + 1, ncols + 7, 0 if ncols else None):
                if v is not None and v != ncols: out.append((struct.pack("<i", v), COLMISMATCH, "slicecols!=meta"))
    elif kind == "len7":
        out += [(b"\xff\xff\xff\xff\x0f", INVALID, "len7<0"), (b"\x80\x80\x80\x80\x08", INVALID, "len7<0")]
    elif kind == "tflag":
        out += [(bytes([v]), ARRLEN1, "tflag") for v in (2, 3, 0x80, 0xff)]
    elif kind == "mdtype" and note in ("tmeta", "cmeta-present"):
        out += [(bytes([v]), TYPEID, "typeid") for v in (0, 11, 14, 0x7f, 0xff)]
    elif kind == "vatype" and not note.endswith("bit"):
        out += [(bytes([v]), TYPEID, "typeid") for v in (0, 11, 14, 0x7f, 0xff)]
    elif kind == "encoding":
        out += [(bytes([v]), ENCODING, "encoding") for v in (0, 4, 5, 0x7f, 0xff)]
    elif kind == "rowcount":
        out += [(n, "decode", "rowcount<0") for n in neg[:2]]
        v = struct.unpack("<i", old)[0]
        for w in (v + 1, v - 1 if v > 0 else v + 2, v + 256):
            if w >= 0 and w != v and "bit" not in note: out.append((struct.pack("<i", w), "decode", "rowcount-inconsistent"))
    return [o for o in out if o]


def cases(rng, tier):
    ntab = {"quick": 14, "thorough": 200, "search": 8}[tier]
    idx = 0
    for i in range(ntab):
        t = G.rand_table(rng, ncols=rng.choice([1, 2, 3]), nslices=rng.choice([1, 2]), maxrows=9)
        # make sure all column-metadata names are used by column 0 so that their type ids are "present"
        layouts = None
        if i % 2:
            layouts = {}
            for si, sl in enumerate(t["slices"]):
                for ci, col in enumerate(sl):
                    layouts[(si, ci, -1)] = G.random_layout(rng, t["cols"][ci]["ty"], col["vals"])
                    for pi, (pn, pty, elems, pk) in enumerate(col["props"]):
                        layouts[(si, ci, pi)] = G.random_layout(rng, pty, elems)
        e = G.encode_table(t, layouts=layouts)
        data = bytes(e.b)
        if len(data) > 2500: continue
        ncols = len(t["cols"])
        # which name-list type ids belong to a value that is present (a default, or a value in some column)
        fields = list(e.fields)
        for j, (kind, off, w, note) in enumerate(fields):
            if kind == "mdtype" and note == "cmeta":
                # present iff followed by a default flag of 1 or used by a column: the reference encoder only lists used names
                fields[j] = (kind, off, w, "cmeta-present")
        pend = []
        last_bytesize = None
        for (kind, off, w, note) in fields:
            old = data[off:off + w]
            if kind == "bytesize": last_bytesize = off
            for (rep, exp, desc) in corruptions(rng, kind, old, note, ncols):
                if len(rep) != w and kind != "len7": continue
                if rep == old: continue
                mutated = data[:off] + rep + data[off + w:]
                if kind == "len7" and last_bytesize is not None:
                    # keep the array's byte-size header consistent so that only the length is wrong
                    bs = struct.unpack("<i", data[last_bytesize:last_bytesize + 4])[0] + len(rep) - w
                    mutated = mutated[:last_bytesize] + struct.pack("<i", bs) + mutated[last_bytesize + 4:]
                pend.append((off, rep, exp, desc, kind, mutated))
        # the readers that step over columns (sbdf_ts_skip, a subset without the column) meet the same markers, section
        # ids, encodings and element counts and must refuse them with the same status
        SKIPKINDS = ("arrcount", "slicecols", "encoding", "section", "marker0", "marker1")
        pend2 = []
        for x in pend:
            pend2.append(x + ("*",))
            if x[4] in SKIPKINDS and x[2] != "decode":
                pend2.append(x + ("skip",))
                if ncols: pend2.append(x + ("0" * ncols,))
        pend = pend2
        for k in range(0, len(pend), 40):
            chunk = [x[:5] for x in pend[k:k + 40]]
            lines = []
            for (off, rep, exp, desc, kind, mutated, mode) in pend[k:k + 40]:
                lines += ["in 1 %s" % hx(mutated), "session 1 %s" % mode]

            def oracle(c, chunk=chunk):
                f = []
                for j, (off, rep, exp, desc, kind) in enumerate(chunk):
                    d = parse_session(c.val(2 * j + 2))
                    which, err = first_error(d)
                    if exp == "decode":
                        # negative / inconsistent row count: refused at read, or at the first decode of that array
                        line = d["line"] or ""
                        ok = (err is not None and err not in (0, -1000)) or any(x in line for x in (":-21:", ":-17:", ":-2:"))
                        if not ok: f.append("%s at offset %d (%s) was accepted silently" % (desc, off, rep.hex()))
                        continue
                    if err is None:
                        f.append("%s at offset %d (%s): no error" % (desc, off, rep.hex())); continue
                    if err != exp:
                        f.append("%s at offset %d (%s): status %d, expected %d" % (desc, off, rep.hex(), err, exp))
                return f[:5]
            idx += 1
            yield Case("c%d" % idx, lines, oracle=oracle, meta={"evals": len(chunk), "dist": {"kinds": ",".join(sorted(set(x[3] for x in chunk)))[:60]}})
    # every status has its own description
    lines = ["errstr %d" % s for s in [0, -1, -2, -3, -4, -5, -6, -7, -8, -9, -10, -12, -13, -14, -15, -16, -17, -18, -19, -20, -21, -1000]] + ["errstr -999", "errstr 1"]

    def oracle(c):
        vals = [c.val(i + 1) for i in range(len(lines))]
        unknown = vals[-1]
        f = []
        if vals[-2] != unknown: f.append("unknown codes do not share the fallback description")
        for s, v in zip(lines[:-2], vals[:-2]):
            if v == unknown: f.append("%s has no description of its own" % s)
        if len(set(vals[:-2])) != len(vals) - 2: f.append("two status codes share one description")
        return f
    yield Case("errstr", lines, oracle=oracle, compare=False)
