#!/bin/sh
# props_under.sh <patch.diff> <prop id>... : which Props/<id>.vo no longer build when the generated layer is regenerated from
# a scratch copy of /repo with the patch applied (the proofs, without the correspondence run).  Restores the generated layer.
V=$(cd "$(dirname "$0")/.." && pwd)
P=$1; shift
D=$(mktemp -d /tmp/mutp.XXXXXX)
git -C /repo archive HEAD | tar -x -C $D
if ! (cd $D && patch -p1 -s < $P); then echo "PATCH FAILED"; rm -rf $D; exit 3; fi
cd $V
for t in gen_consts.py srcfacts.py c2gallina.py c2imp.py; do SBDF_REPO=$D python3 tools/$t >/dev/null 2>&1; done
for id in "$@"; do
  out=$(tools/mk.sh -k Props/$id.vo 2>&1 | grep -A3 "^File" | head -5 | tr '\n' ' ' | cut -c1-260)
  if [ -n "$out" ]; then echo "$id BROKEN: $out"; else echo "$id builds"; fi
done
rm -rf $D
for t in gen_consts.py srcfacts.py c2gallina.py c2imp.py; do python3 tools/$t >/dev/null 2>&1; done
tools/mk.sh >/dev/null 2>&1
