#!/usr/bin/env python3
"""Writes MANIFEST.json from the table below (one row per property) and validates it."""
import json, os, sys
V = os.path.dirname(os.path.dirname(os.path.abspath(__file__)))
props = [json.loads(l) for l in open(os.path.join(V, "properties.jsonl"))]
ROWS = json.load(open(os.path.join(V, "tools", "manifest_rows.json")))
checks, na = [], []
for p in props:
    pid = p["id"]
    r = ROWS.get(pid)
    if not r or not os.path.exists(os.path.join(V, "checks", pid + ".py")) or r.get("not_applicable"):
        na.append({"property_id": pid, "reason": (r or {}).get("not_applicable", "check not built yet (work in progress, see DESIGN.md section 9)")})
        continue
    checks.append({
        "property_id": pid,
        "quick_cmd": "./check %s quick" % pid,
        "thorough_cmd": "./check %s thorough" % pid,
        "evidence_file": "evidence/%s.json" % pid,
        "replay_cmd_template": "./check %s --replay {path}" % pid,
        "engine": "coq-model+correspondence",
        "level_claimed": {"category": r.get("category", "proof"), "text": r["text"], "design_ref": r.get("design_ref", "DESIGN.md section 5, " + pid)},
        "level_note": r["note"],
        "technique": r.get("technique", "machine-checked proof in Coq 8.16 over a hand-written executable model, tied to the code by a correspondence check (extracted model vs sanitizer build of /repo on generated scripts)"),
    })
m = {
    "version": 1,
    "setup_cmd": "./tools/setup.sh",
    "hooks": {"guard": "SBDF_VERIF", "enable": "checks compile /repo/src/*.c themselves with clang -DSBDF_VERIF -fsanitize=address,undefined and the allocator redirected by -Dmalloc=vf_malloc etc.; no hook code exists in /repo",
              "baseline_off_cmd": "./tools/baseline.sh", "source_commits": [], "add_only": True},
    "engines": [{"name": "coq-model+correspondence", "path": "check", "serves_properties": [c["property_id"] for c in checks],
                 "kind_free_text": "Coq 8.16 development under coq/ (model, lemmas, Props/<id>.v), OCaml extraction driven by model/driver.ml, C harness harness/harness.c, generators checks/<id>.py"}],
    "checks": checks,
    "not_applicable": na,
    "notes": "See DESIGN.md. Fix commits in /repo are listed in known_findings.json.",
}
json.dump(m, open(os.path.join(V, "MANIFEST.json"), "w"), indent=1)
try:
    import jsonschema
    jsonschema.validate(m, json.load(open("/root/.vp/MANIFEST.schema.json")))
    print("MANIFEST.json valid: %d checks, %d not_applicable" % (len(checks), len(na)))
except ImportError:
    print("MANIFEST.json written (jsonschema not available to validate)")
