#!/usr/bin/env python3
"""verify_seeded.py [ids...] - confirms each candidate in seeded/_incoming/<id>/mN.{diff,_demo.c,md}:
  1. the patch applies to /repo's HEAD, the library builds and the 26 tests pass with it;
  2. the demonstration fails with the change and passes without it;
  3. which of /verif's checks report it (quick tier).
Confirmed changes are stored as seeded/<id>-mN/{patch.diff,demo.c,meta.json}."""
import os, sys, json, subprocess, shutil, re, tempfile
V = "/verif"; INC = V + "/seeded/_incoming"

def sh(cmd, cwd=None, timeout=1800, env=None):
    return subprocess.run(cmd, shell=True, cwd=cwd, capture_output=True, text=True, timeout=timeout, env=env)

def demo_cmd(src, out, extra=""):
    head = open(src).read(3000)
    flags = "-g -O1 -w -fsanitize=address,undefined -fno-sanitize-recover=all"
    if "fsanitize=thread" in head or "pthread" in head: 
        flags = "-g -O1 -w -fsanitize=thread" if "fsanitize=thread" in head else flags
        extra += " -lpthread"
    if "--wrap=malloc" in head:
        # the demonstration observes the allocator through the linker: built as it says, without a sanitizer
        return "gcc -g -O0 -w -D_GNU_SOURCE -DSBDF_STATIC %s -Iinclude -Isrc %s src/*.c -Wl,--wrap=malloc,--wrap=calloc,--wrap=realloc,--wrap=free -o %s" % (extra, src, out)
    extra += " -D_GNU_SOURCE -DSBDF_STATIC"
    if "-Dmalloc=my_malloc" in head:
        extra = " -Dmalloc=my_malloc -Dcalloc=my_calloc -Drealloc=my_realloc -Dfree=my_free " + extra
    return "clang %s %s -Iinclude -Isrc src/*.c %s -o %s" % (flags, extra, src, out)

def run_demo(wt, demo, pid, tag):
    out = "/tmp/sw/%s_demo_%s" % (pid, tag)
    results = []
    variants = [""]
    if pid.startswith(("C17", "C20", "C07", "C08", "C16", "C01")): variants = ["", "-D__sparc"]
    for var in variants:
        r = sh(demo_cmd(demo, out, var), cwd=wt)
        if r.returncode != 0:
            results.append(("build-failed", r.stderr[-300:])); continue
        r = sh("ASAN_OPTIONS=detect_leaks=1 " + out, cwd=wt, timeout=600)
        results.append((r.returncode, (r.stdout + r.stderr)[-300:]))
    try: os.remove(out)
    except OSError: pass
    return results

def main():
    ids = sys.argv[1:] or sorted(os.listdir(INC))
    os.makedirs("/tmp/sw", exist_ok=True)
    summary = []
    for pid in ids:
        for m in os.environ.get("SEEDED_NAMES", "m1 m2").split():
            d = os.path.join(INC, pid)
            diff, demo, md = [os.path.join(d, m + x) for x in (".diff", "_demo.c", ".md")]
            if not os.path.exists(diff): continue
            wt = "/tmp/sw/%s-%s" % (pid, m)
            sh("git -C /repo worktree remove --force %s; rm -rf %s" % (wt, wt))
            r = sh("git -C /repo worktree add -q --detach %s HEAD" % wt)
            rec = {"property": pid, "id": "%s-%s" % (pid, m)}
            try:
                base = run_demo(wt, demo, pid + m, "base")
                r = sh("git apply %s" % diff, cwd=wt)
                if r.returncode != 0:
                    r = sh("patch -p1 < %s" % diff, cwd=wt)
                rec["applies"] = r.returncode == 0
                r = sh("cmake -G Ninja -S . -B _b >/dev/null && cmake --build _b 2>&1 | tail -3 && ctest --test-dir _b -j8 2>&1 | tail -3", cwd=wt)
                rec["tests_pass"] = "100% tests passed" in r.stdout
                rec["ctest"] = r.stdout.strip().splitlines()[-3:] if r.stdout.strip() else r.stderr[-200:]
                sh("rm -rf _b", cwd=wt)
                mut = run_demo(wt, demo, pid + m, "mut")
                rec["demo_without_change"] = base; rec["demo_with_change"] = mut
                # the demonstration discriminates in at least one build configuration (default, big-endian)
                rec["demo_ok"] = any(b[0] == 0 and x[0] != 0 for b, x in zip(base, mut))
                # our check
                env = dict(os.environ, SBDF_REPO=wt)
                shutil.rmtree(V + "/replays", ignore_errors=True)
                r = sh("./check %s quick" % pid, cwd=V, env=env, timeout=3000)
                lines = [l for l in r.stdout.splitlines() if "VIOLATION" in l]
                rec["check_exit"] = r.returncode; rec["check_line"] = lines[:1]
                why = ""
                for f in sorted(os.listdir(V + "/replays/" + pid)) if os.path.isdir(V + "/replays/" + pid) else []:
                    j = json.load(open(os.path.join(V, "replays", pid, f))); why = (j.get("failures") or [""])[0][:300]; break
                rec["check_reason"] = why
            finally:
                sh("git -C /repo worktree remove --force %s" % wt); sh("rm -rf %s" % wt)
            ok = rec.get("applies") and rec.get("tests_pass") and rec.get("demo_ok")
            rec["confirmed"] = bool(ok)
            if ok:
                dst = os.path.join(V, "seeded", rec["id"])
                os.makedirs(dst, exist_ok=True)
                shutil.copy(diff, os.path.join(dst, "patch.diff")); shutil.copy(demo, os.path.join(dst, "demo.c"))
                if os.path.exists(md): shutil.copy(md, os.path.join(dst, "notes.md"))
                needs = ""
                if os.path.exists(md):
                    t = open(md).read(); mm = re.search(r"(?is)(needs|manifest|trigger)[^\n]*\n(.{0,600})", t); needs = " ".join((mm.group(0) if mm else t[:600]).split())[:600]
                json.dump({"property": pid, "breaks": open(md).read()[:800] if os.path.exists(md) else "", "needs_to_manifest": needs,
                           "what_was_run": {"apply": "git apply patch.diff on /repo HEAD in a scratch worktree", "tests": rec["ctest"],
                                            "demo_without_change": base, "demo_with_change": mut, "check": "./check %s quick (SBDF_REPO=<worktree>)" % pid},
                           "detected_by_check": rec["check_exit"] == 1, "check_verdict": rec["check_line"], "check_reason": rec["check_reason"]},
                          open(os.path.join(dst, "meta.json"), "w"), indent=1)
            summary.append(rec)
            print("%s  applies=%s tests=%s demo_ok=%s detected=%s  %s" % (rec["id"], rec.get("applies"), rec.get("tests_pass"), rec.get("demo_ok"), rec.get("check_exit") == 1, rec.get("check_reason", "")[:120]), flush=True)
    json.dump(summary, open(V + "/seeded/_incoming/summary.json", "w"), indent=1)

if __name__ == "__main__":
    main()
