#!/bin/sh
# MANIFEST.setup_cmd: builds the framework from files on disk only (offline).
set -e
cd "$(dirname "$0")/.."
python3 tools/gen_consts.py
[ -f tools/srcfacts.py ] && python3 tools/srcfacts.py || true
[ -f tools/c2gallina.py ] && python3 tools/c2gallina.py || true
[ -f tools/c2imp.py ] && python3 tools/c2imp.py || true
cd coq && coq_makefile -f _CoqProject -o Makefile >/dev/null && cd ..
tools/build_model.sh
tools/build_harness.sh asan >/dev/null
echo "setup done"
