#!/usr/bin/env python3
"""srcfacts.py - whole-program facts extracted from /repo's source on every run (clang 14 JSON AST):
call graph, external functions, uses of file-scope / function-static objects (classified),
FILE* arguments of stream calls, references to std streams, sbdf_swap call sites, status macros used,
the table of sbdf_err_get_str.  Output: coq/Gen/Facts.v (rewritten only when it changes) and
.cache/facts.json (with source sites, for replay files)."""
import json, os, re, subprocess, sys, glob

REPO = os.environ.get("SBDF_REPO", "/repo")
V = os.path.join(os.path.dirname(os.path.abspath(__file__)), "..")
OUT = os.path.join(V, "coq", "Gen", "Facts.v")
EXTRA = os.environ.get("SBDF_CFLAGS", "").split()


# the build configurations the repository supports on this platform: the default (little-endian)
# one and the big-endian one (src/bswap.c keys on __sparc).  Facts are the union over both, so code
# that only one configuration compiles is seen too.
CONFIGS = [[], ["-D__sparc"]]


def ast_of(path, cfg=()):
    p = subprocess.run(["clang", "-fsyntax-only", "-w", "-I", REPO + "/include", "-I", REPO + "/src"] + EXTRA + list(cfg) +
                       ["-Xclang", "-ast-dump=json", path], capture_output=True, text=True)
    if p.returncode != 0:
        sys.stderr.write(p.stderr[-2000:]); sys.exit(2)
    return json.loads(p.stdout)


def coqstr(s):
    return '"' + s.replace('"', '""') + '"'


def coqlist(items):
    return "[" + "; ".join(items) + "]"


STREAM_FUNCS = {"fread", "fwrite", "fseek", "ftell", "fflush", "fclose", "fgetc", "fputc", "fputs", "fgets", "fprintf", "vfprintf",
                "fscanf", "ungetc", "rewind", "fsetpos", "fgetpos", "feof", "ferror", "clearerr", "setvbuf", "getc", "putc", "fileno"}
STD_OBJECTS = {"stdin", "stdout", "stderr", "environ", "errno", "__environ", "tzname", "timezone", "daylight", "optarg", "optind"}


def main():
    funs = {}            # name -> {static, callees:set, indirect:int, file, line, addr_taken:set}
    declared_only = set()
    globals_ = {}        # name -> {file, const, static, kind: file|local-static}
    uses = []            # (var, function, kind, file, line)
    stream_calls = []    # (function, callee, ok, file, line)
    std_refs = []        # (name, function, file, line)
    swap_sites = []      # (function, file, line)
    err_table = []; err_default = None
    files = sorted(glob.glob(os.path.join(REPO, "src", "*.c")))
    for path, ci in [(p_, c_) for p_ in files for c_ in range(len(CONFIGS))]:
        base = os.path.basename(path)
        ast = ast_of(path, CONFIGS[ci])
        cur_file = [None]

        def in_main_file(n):
            loc = n.get("loc", {})
            if "file" in loc: cur_file[0] = loc["file"]
            if "spellingLoc" in loc and "file" in loc["spellingLoc"]: cur_file[0] = loc["spellingLoc"]["file"]
            if "includedFrom" in loc and "file" not in loc: pass
            return cur_file[0] is None or os.path.abspath(cur_file[0]) == os.path.abspath(path)

        local_funcs = {}
        for n in ast["inner"]:
            mainf = in_main_file(n)
            if n["kind"] == "FunctionDecl":
                has_body = any(c.get("kind") == "CompoundStmt" for c in n.get("inner", []))
                if has_body and mainf:
                    local_funcs[n["name"]] = n
                elif not has_body:
                    declared_only.add(n["name"])
            elif n["kind"] == "VarDecl" and mainf:
                qt = n.get("type", {}).get("qualType", "")
                globals_[n["name"]] = {"file": base, "const": qt.startswith("const ") or " const" in qt, "static": n.get("storageClass") == "static", "kind": "file"}

        for fname, fn in local_funcs.items():
            info = funs.setdefault(fname, {"static": fn.get("storageClass") == "static", "callees": set(), "indirect": 0, "file": base,
                                          "line": fn.get("loc", {}).get("line", 0), "addr_taken": set()})
            params = set()
            local_statics = set()
            line = [fn.get("loc", {}).get("line", 0)]

            def strip(n):
                while n.get("kind") in ("ImplicitCastExpr", "ParenExpr", "CStyleCastExpr") and n.get("inner"):
                    n = n["inner"][0]
                return n

            def walk(n, parents):
                if "loc" in n and "line" in n.get("loc", {}): line[0] = n["loc"]["line"]
                rng = n.get("range", {}).get("begin", {})
                if "line" in rng: line[0] = rng["line"]
                k = n.get("kind")
                if k == "ParmVarDecl":
                    params.add(n.get("name"))
                if k == "VarDecl" and n.get("storageClass") == "static":
                    local_statics.add(n["name"])
                    qt = n.get("type", {}).get("qualType", "")
                    globals_[fname + "::" + n["name"]] = {"file": base, "const": qt.startswith("const "), "static": True, "kind": "local-static"}
                if k == "CallExpr":
                    callee = strip(n["inner"][0]) if n.get("inner") else {}
                    ref = callee.get("referencedDecl", {})
                    if callee.get("kind") == "DeclRefExpr" and ref.get("kind") == "FunctionDecl":
                        cname = ref["name"]
                        info["callees"].add(cname)
                        if cname == "sbdf_swap": swap_sites.append((fname, base, line[0]))
                        if cname in STREAM_FUNCS:
                            ok = False
                            for a in n["inner"][1:]:
                                at = a.get("type", {}).get("qualType", "")
                                if "FILE" in at or "_IO_FILE" in at:
                                    s_ = strip(a)
                                    ok = s_.get("kind") == "DeclRefExpr" and s_.get("referencedDecl", {}).get("kind") == "ParmVarDecl"
                                    if not ok and s_.get("kind") == "MemberExpr":
                                        b_ = strip(s_["inner"][0]) if s_.get("inner") else {}
                                        ok = b_.get("kind") == "DeclRefExpr" and b_.get("referencedDecl", {}).get("kind") == "ParmVarDecl"
                            stream_calls.append((fname, cname, ok, base, line[0]))
                    else:
                        info.setdefault("ind", {}); info["ind"][ci] = info["ind"].get(ci, 0) + 1
                        info["indirect"] = max(info["ind"].values())
                if k == "DeclRefExpr":
                    ref = n.get("referencedDecl", {})
                    rk, rn = ref.get("kind"), ref.get("name")
                    if rk == "FunctionDecl":
                        par = parents[-1] if parents else {}
                        gp = parents[-2] if len(parents) > 1 else {}
                        is_callee = par.get("kind") == "ImplicitCastExpr" and par.get("castKind") == "FunctionToPointerDecay" and \
                            gp.get("kind") == "CallExpr" and gp.get("inner", [None])[0] is par
                        if not is_callee:
                            info["addr_taken"].add(rn)
                    elif rk == "VarDecl":
                        if rn in STD_OBJECTS:
                            std_refs.append((rn, fname, base, line[0]))
                        elif rn in local_statics or (rn in globals_ and rn not in params and globals_[rn]["kind"] == "file" and not _is_local(rn, parents_locals)):
                            gname = (fname + "::" + rn) if rn in local_statics else rn
                            uses.append((gname, fname, classify(n, parents), base, line[0]))
                if k == "DeclStmt":
                    for c in n.get("inner", []):
                        if c.get("kind") == "VarDecl" and c.get("storageClass") != "static":
                            parents_locals.add(c.get("name"))
                for c in n.get("inner", []):
                    if isinstance(c, dict):
                        walk(c, parents + [n])

            parents_locals = set()

            def _is_local(name, locs):
                return name in locs

            def classify(n, parents):
                """how a reference to a static object is used"""
                i = len(parents) - 1
                cur = n
                while i >= 0:
                    p = parents[i]; k = p.get("kind")
                    if k == "ParenExpr":
                        cur = p; i -= 1; continue
                    if k == "ImplicitCastExpr":
                        ck = p.get("castKind")
                        if ck == "LValueToRValue": return "read"
                        if ck in ("ArrayToPointerDecay", "BitCast", "NoOp"):
                            if ck == "ArrayToPointerDecay":
                                # an argument of a call? then the parameter's constness decides
                                j = i - 1; c2 = p
                                while j >= 0 and parents[j].get("kind") in ("ImplicitCastExpr", "ParenExpr", "CStyleCastExpr"):
                                    c2 = parents[j]; j -= 1
                                if j >= 0 and parents[j].get("kind") == "CallExpr":
                                    call = parents[j]
                                    idx = next((ai for ai, a in enumerate(call["inner"]) if a is c2), None)
                                    callee = strip(call["inner"][0])
                                    ft = callee.get("type", {}).get("qualType", "")
                                    m = re.search(r"\((.*)\)", ft)
                                    if idx and m:
                                        ps = [x.strip() for x in m.group(1).split(",")]
                                        if idx - 1 < len(ps) and ps[idx - 1].startswith("const "):
                                            return "decay-const-arg"
                                    return "decay-mutable-arg"
                                if j >= 0 and parents[j].get("kind") == "ArraySubscriptExpr":
                                    cur = parents[j]; i = j - 1; continue
                                return "decay-other"
                            cur = p; i -= 1; continue
                        return "cast-" + str(ck)
                    if k in ("MemberExpr", "ArraySubscriptExpr"):
                        cur = p; i -= 1; continue
                    if k == "UnaryOperator":
                        op = p.get("opcode")
                        if op in ("++", "--"): return "write"
                        if op == "&": return "address-taken"
                        if op == "*": cur = p; i -= 1; continue
                        return "read"
                    if k in ("BinaryOperator", "CompoundAssignOperator"):
                        op = p.get("opcode", "")
                        if (op == "=" or k == "CompoundAssignOperator") and p["inner"][0] is cur: return "write"
                        return "read"
                    if k == "CallExpr":
                        return "by-value-arg"
                    if k in ("InitListExpr", "VarDecl", "ReturnStmt"):
                        return "read"
                    return "unknown-" + str(k)
                return "unknown"

            walk(fn, [])
            # the error description table
            if fname == "sbdf_err_get_str" and ci == 0:
                def find_cases(n, pending):
                    k = n.get("kind")
                    if k == "CaseStmt":
                        val = None
                        def ceval(x):
                            k_ = x.get("kind")
                            if k_ == "IntegerLiteral": return int(x["value"])
                            if k_ == "UnaryOperator" and x.get("opcode") == "-": return -ceval(x["inner"][0])
                            if k_ == "UnaryOperator" and x.get("opcode") == "+": return ceval(x["inner"][0])
                            return ceval(x["inner"][0])
                        for c in n.get("inner", []):
                            if c.get("kind") == "ConstantExpr": val = ceval(c)
                        pending = pending + [val]
                        for c in n.get("inner", []):
                            if c.get("kind") not in ("ConstantExpr",): find_cases(c, pending)
                        return
                    if k == "ReturnStmt":
                        lit = strip(n["inner"][0])
                        if lit.get("kind") == "StringLiteral":
                            sv = json.loads(lit["value"]) if lit["value"].startswith('"') else lit["value"]
                            if pending:
                                for v in pending: err_table.append((v, sv))
                            else:
                                nonlocal_default[0] = sv
                        return
                    for c in n.get("inner", []):
                        if isinstance(c, dict): find_cases(c, pending if k != "CompoundStmt" else [])
                nonlocal_default = [None]
                find_cases(fn, [])
                err_default = nonlocal_default[0]

    defined = set(funs)
    externals = sorted(set(c for f in funs.values() for c in f["callees"] | f["addr_taken"] if c not in defined))
    # status macros used in the sources (comments stripped)
    text = ""
    for path in files:
        if os.path.basename(path) == "errors.c":
            continue          # the description table itself is not a use
        src = open(path, errors="replace").read()
        src = re.sub(r"/\*.*?\*/", " ", src, flags=re.S); src = re.sub(r"//[^\n]*", " ", src)
        text += src
    macros = {}
    for line in subprocess.run(["clang", "-dM", "-E", "-x", "c", "-I", REPO + "/include", "-"], input='#include "errors.h"\n', capture_output=True, text=True).stdout.splitlines():
        m = re.match(r"#define (SBDF_(?:ERROR_[A-Z0-9_]+|OK|TABLEEND)) (-?\d+)$", line)
        if m: macros[m.group(1)] = int(m.group(2))
    status_uses = sorted(set(v for k, v in macros.items() if re.search(r"\b%s\b" % k, text)))

    L = ["(* GENERATED by tools/srcfacts.py from /repo/src (clang AST) - do not edit *)",
         "From Coq Require Import ZArith List String.", "Import ListNotations.", "Local Open Scope string_scope.", ""]
    L.append("(* (name, is static, callees incl. functions whose address it takes, number of indirect calls) *)")
    L.append("Definition funs : list (string * bool * list string * nat) := [")
    rows = []
    for name in sorted(funs):
        f = funs[name]
        rows.append("  (%s, %s, %s, %d)" % (coqstr(name), "true" if f["static"] else "false",
                                           coqlist([coqstr(c) for c in sorted(f["callees"] | f["addr_taken"])]), f["indirect"]))
    L.append(";\n".join(rows) + "].")
    L.append("")
    L.append("Definition externals : list string := %s." % coqlist([coqstr(e) for e in externals]))
    L.append("")
    L.append("(* (object, function, kind of use) for every file-scope or function-static object *)")
    L.append("Definition static_uses : list (string * string * string) := %s." %
             coqlist(["(%s, %s, %s)" % (coqstr(u[0]), coqstr(u[1]), coqstr(u[2])) for u in sorted(set((u[0], u[1], u[2]) for u in uses))]))
    L.append("Definition static_objects : list (string * bool) := %s." %
             coqlist(["(%s, %s)" % (coqstr(k), "true" if v["const"] else "false") for k, v in sorted(globals_.items())]))
    L.append("")
    L.append("(* (function, stream call, its FILE* argument is a parameter of the function) *)")
    L.append("Definition stream_calls : list (string * string * bool) := %s." %
             coqlist(["(%s, %s, %s)" % (coqstr(a), coqstr(b), "true" if ok else "false") for (a, b, ok) in sorted(set((s[0], s[1], s[2]) for s in stream_calls))]))
    L.append("Definition std_object_refs : list (string * string) := %s." % coqlist(["(%s, %s)" % (coqstr(a), coqstr(b)) for (a, b) in sorted(set((s[0], s[1]) for s in std_refs))]))
    L.append("Definition swap_sites : list string := %s." % coqlist([coqstr(s) for s in sorted(set(x[0] for x in swap_sites))]))
    L.append("")
    L.append("Local Open Scope Z_scope.")
    L.append("Definition status_uses : list Z := %s." % coqlist(["(%d)" % v for v in status_uses]))
    L.append("Definition err_table : list (Z * string) := %s." % coqlist(["((%d), %s)" % (v, coqstr(s)) for (v, s) in err_table]))
    L.append("Definition err_default : string := %s." % coqstr(err_default or ""))
    text_out = "\n".join(L) + "\n"
    old = open(OUT).read() if os.path.exists(OUT) else None
    if old != text_out:
        os.makedirs(os.path.dirname(OUT), exist_ok=True); open(OUT, "w").write(text_out)
        print("srcfacts: rewrote", os.path.normpath(OUT))
    os.makedirs(os.path.join(V, ".cache"), exist_ok=True)
    json.dump({"funs": {k: {"static": v["static"], "callees": sorted(v["callees"]), "addr_taken": sorted(v["addr_taken"]), "indirect": v["indirect"], "file": v["file"], "line": v["line"]} for k, v in funs.items()},
               "externals": externals, "uses": uses, "stream_calls": stream_calls, "std_refs": std_refs, "swap_sites": swap_sites,
               "status_uses": status_uses, "err_table": err_table, "err_default": err_default, "globals": globals_},
              open(os.path.join(V, ".cache", "facts.json"), "w"), indent=1)


if __name__ == "__main__":
    main()
