#!/bin/sh
# mk.sh [targets]: make in coq/ under the same lock the checks use
V=$(cd "$(dirname "$0")/.." && pwd)
cd "$V/coq" && { [ -f Makefile ] || coq_makefile -f _CoqProject -o Makefile >/dev/null; }
mkdir -p "$V/.cache"
exec flock "$V/.cache/lock" timeout 3000 make -j16 "$@" 2>&1 | grep -v conda | grep -v "^COQ\|Closed under the global"
