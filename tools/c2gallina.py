#!/usr/bin/env python3
"""c2gallina.py - translates the pure integer leaf functions of /repo/src/internals.c and
valuetype.c into Gallina (coq/Gen/Leaf.v) on every run, from clang 14's JSON AST.

Subset: functions whose body consists of if / switch / return over integer expressions of their
parameters (literals, macros already expanded by clang, < <= > >= == != + - * << & |, unary -,
?:, casts between integer types, member access `param.id`, calls to other translated functions).
Anything else makes the translation of that function fail loudly: the function is omitted and the
tie lemma that mentions it (coq/LeafTie.v) no longer compiles.

The tie lemmas prove, for ALL integer arguments, that the translated source equals the
specification function the model uses (usize, is_arr, len7, vt_cmp): so for these functions the
theorems are about what the source says now."""
import json, os, subprocess, sys

REPO = os.environ.get("SBDF_REPO", "/repo")
V = os.path.join(os.path.dirname(os.path.abspath(__file__)), "..")
OUT = os.path.join(V, "coq", "Gen", "Leaf.v")

WANTED = [("internals.c", "sbdf_get_unpacked_size"), ("internals.c", "sbdf_get_packed_size"), ("internals.c", "sbdf_ti_is_arr"),
          ("internals.c", "sbdf_get_7bitpacked_len"), ("valuetype.c", "sbdf_vt_cmp")]


class Untranslatable(Exception):
    pass


def ast_of(path):
    p = subprocess.run(["clang", "-fsyntax-only", "-w", "-I", REPO + "/include", "-I", REPO + "/src",
                        "-Xclang", "-ast-dump=json", path], capture_output=True, text=True)
    if p.returncode != 0:
        sys.stderr.write(p.stderr[-2000:]); sys.exit(2)
    return json.loads(p.stdout)


def strip(n):
    while n.get("kind") in ("ImplicitCastExpr", "ParenExpr", "ConstantExpr", "CStyleCastExpr") and n.get("inner"):
        if n["kind"] in ("ImplicitCastExpr", "CStyleCastExpr"):
            ck = n.get("castKind")
            if ck not in ("LValueToRValue", "IntegralCast", "NoOp", "FunctionToPointerDecay"):
                raise Untranslatable("cast " + str(ck))
        n = n["inner"][0]
    return n


BIN = {"+": "(%s + %s)", "-": "(%s - %s)", "*": "(%s * %s)", "<<": "(Z.shiftl %s %s)", "&": "(Z.land %s %s)", "|": "(Z.lor %s %s)"}
CMP = {"<": "(%s <? %s)", "<=": "(%s <=? %s)", ">": "(%s >? %s)", ">=": "(%s >=? %s)", "==": "(%s =? %s)", "!=": "(negb (%s =? %s))"}


def expr(n, params, known):
    """integer-valued expression"""
    n = strip(n)
    k = n.get("kind")
    if k == "IntegerLiteral":
        v = int(n["value"]); return "(%d)" % v if v < 0 else str(v)
    if k == "DeclRefExpr":
        nm = n.get("referencedDecl", {}).get("name")
        if n.get("referencedDecl", {}).get("kind") == "ParmVarDecl" and nm in params: return params[nm]
        raise Untranslatable("reference to " + str(nm))
    if k == "MemberExpr":
        base = strip(n["inner"][0])
        nm = base.get("referencedDecl", {}).get("name")
        if base.get("kind") == "DeclRefExpr" and nm in params and n.get("name") == "id": return params[nm]
        raise Untranslatable("member access")
    if k == "UnaryOperator" and n.get("opcode") == "-":
        return "(- %s)" % expr(n["inner"][0], params, known)
    if k == "BinaryOperator":
        op = n.get("opcode")
        a, b = expr(n["inner"][0], params, known), expr(n["inner"][1], params, known)
        if op in BIN: return BIN[op] % (a, b)
        if op in CMP: return "(if %s then 1 else 0)" % (CMP[op] % (a, b))
        raise Untranslatable("operator " + str(op))
    if k == "ConditionalOperator":
        return "(if %s then %s else %s)" % (cond(n["inner"][0], params, known), expr(n["inner"][1], params, known), expr(n["inner"][2], params, known))
    if k == "CallExpr":
        callee = strip(n["inner"][0]).get("referencedDecl", {}).get("name")
        if callee in known:
            return "(%s %s)" % (known[callee], " ".join(expr(a, params, known) for a in n["inner"][1:]))
        raise Untranslatable("call to " + str(callee))
    raise Untranslatable("expression " + str(k))


def cond(n, params, known):
    n = strip(n)
    if n.get("kind") == "BinaryOperator" and n.get("opcode") in CMP:
        return CMP[n["opcode"]] % (expr(n["inner"][0], params, known), expr(n["inner"][1], params, known))
    if n.get("kind") == "BinaryOperator" and n.get("opcode") == "&&":
        return "(%s && %s)" % (cond(n["inner"][0], params, known), cond(n["inner"][1], params, known))
    if n.get("kind") == "BinaryOperator" and n.get("opcode") == "||":
        return "(%s || %s)" % (cond(n["inner"][0], params, known), cond(n["inner"][1], params, known))
    if n.get("kind") == "UnaryOperator" and n.get("opcode") == "!":
        return "(negb %s)" % cond(n["inner"][0], params, known)
    return "(negb (%s =? 0))" % expr(n, params, known)


def stmts(lst, params, known):
    """a statement list that ends every path with a return -> a Gallina expression; None = falls through"""
    if not lst:
        return None
    s, rest = lst[0], lst[1:]
    k = s.get("kind")
    if k == "CompoundStmt":
        return stmts(list(s.get("inner", [])) + rest, params, known)
    if k == "ReturnStmt":
        return expr(s["inner"][0], params, known)
    if k == "IfStmt":
        inner = s["inner"]
        c = cond(inner[0], params, known)
        then = stmts([inner[1]] + rest, params, known)
        els = stmts(([inner[2]] if len(inner) > 2 else []) + rest, params, known)
        if then is None or els is None: raise Untranslatable("path without return")
        return "(if %s then %s else %s)" % (c, then, els)
    if k == "SwitchStmt":
        scrut = expr(s["inner"][0], params, known)
        body = s["inner"][1]
        arms = []      # (labels, expr)
        default = None
        pending = []
        def take(st):
            nonlocal pending, default
            kk = st.get("kind")
            if kk == "CaseStmt":
                pending.append(expr(st["inner"][0], params, known))
                take(st["inner"][-1])
            elif kk == "DefaultStmt":
                pending.append(None); take(st["inner"][-1])
            elif kk == "ReturnStmt":
                e = expr(st["inner"][0], params, known)
                if None in pending: default = e
                labs = [p for p in pending if p is not None]
                if labs: arms.append((labs, e))
                pending = []
            elif kk == "CompoundStmt":
                for x in st.get("inner", []): take(x)
            elif kk == "BreakStmt":
                raise Untranslatable("break in switch")
            else:
                raise Untranslatable("statement in switch: " + str(kk))
        for st in body.get("inner", []): take(st)
        if pending: raise Untranslatable("case falling out of the switch")
        tail = default if default is not None else stmts(rest, params, known)
        if tail is None: raise Untranslatable("switch without default and nothing after it")
        out = tail
        for labs, e in reversed(arms):
            test = " || ".join("(%s =? %s)" % (scrut, l) for l in labs)
            out = "(if %s then %s else %s)" % (test, e, out)
        return out
    if k in ("NullStmt",):
        return stmts(rest, params, known)
    raise Untranslatable("statement " + str(k))


def main():
    lines = ["(* GENERATED by tools/c2gallina.py from /repo/src (clang AST) - do not edit *)",
             "From Coq Require Import ZArith Bool.", "Local Open Scope Z_scope.", ""]
    known = {}
    cache = {}
    notes = []
    for fname, fn in WANTED:
        path = os.path.join(REPO, "src", fname)
        if path not in cache: cache[path] = ast_of(path)
        decl = None
        for n in cache[path]["inner"]:
            if n.get("kind") == "FunctionDecl" and n.get("name") == fn and any(c.get("kind") == "CompoundStmt" for c in n.get("inner", [])):
                decl = n
        gname = "gen_" + fn
        try:
            if decl is None: raise Untranslatable("definition not found")
            params = {}
            for c in decl["inner"]:
                if c.get("kind") == "ParmVarDecl":
                    params[c.get("name", "_")] = "p_" + c.get("name", "x")
            body = [c for c in decl["inner"] if c.get("kind") == "CompoundStmt"][0]
            e = stmts([body], params, known)
            if e is None: raise Untranslatable("path without return")
            lines.append("Definition %s %s : Z :=\n  %s." % (gname, " ".join("(%s : Z)" % v for v in params.values()) or "(_ : unit)", e))
            lines.append("")
            known[fn] = gname
        except Untranslatable as ex:
            notes.append("%s: %s" % (fn, ex))
            lines.append("(* %s could not be translated: %s *)" % (fn, ex)); lines.append("")
    text = "\n".join(lines) + "\n"
    old = open(OUT).read() if os.path.exists(OUT) else None
    if old != text:
        os.makedirs(os.path.dirname(OUT), exist_ok=True); open(OUT, "w").write(text)
        print("c2gallina: rewrote", os.path.normpath(OUT))
    for n in notes:
        print("c2gallina: NOT TRANSLATED", n)


if __name__ == "__main__":
    main()
