#!/bin/sh
# dbg.sh File.v N [lines]: show the goals right before line N of coq/File.v
V=$(cd "$(dirname "$0")/.." && pwd)
cd "$V/coq" && sed "$2s/.*/ Show. admit./" $1 > /tmp/D_$$.v && coqc -Q . Sbdf /tmp/D_$$.v 2>&1 | grep -v conda | head -${3:-60}; rm -f /tmp/D_$$.* /tmp/.D_$$.*
