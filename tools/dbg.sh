#!/bin/sh
# dbg.sh File.v N : show the goals right before line N of coq/File.v
cd /verif/coq && sed "$2s/.*/ Show. admit./" $1 > /tmp/D_$$.v && coqc -Q . Sbdf /tmp/D_$$.v 2>&1 | grep -v conda | head -${3:-60}; rm -f /tmp/D_$$.*
