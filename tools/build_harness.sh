#!/bin/sh
# Builds the C harness against /repo's current working tree.
#   build_harness.sh <variant>     variant: asan | be | tsan
# The binary is cached under /verif/.cache/harness/<variant>-<hash of sources>/harness; prints its path.
set -e
V=/verif
REPO=${SBDF_REPO:-/repo}
VAR=${1:-asan}
HASH=$(cat $REPO/src/*.c $REPO/src/*.h $REPO/include/*.h $V/harness/*.c | sha1sum | cut -c1-16)
DIR=$V/.cache/harness/$VAR-$HASH
if [ ! -x $DIR/harness ]; then
  mkdir -p $DIR
  # prune older builds of this variant
  for d in $V/.cache/harness/$VAR-*; do [ "$d" = "$DIR" ] || rm -rf "$d"; done
  REDIR="-Dmalloc=vf_malloc -Dcalloc=vf_calloc -Drealloc=vf_realloc -Dfree=vf_free"
  case $VAR in
    asan) SAN="-fsanitize=address,undefined -fno-sanitize-recover=all"; EXTRA="" ;;
    be)   SAN="-fsanitize=address,undefined -fno-sanitize-recover=all"; EXTRA="-D__sparc" ;;
    tsan) SAN="-fsanitize=thread"; EXTRA="" ;;
  esac
  # hooks guard (no hook commits exist; the define documents the convention)
  CF="-g -O1 -w -DSBDF_VERIF $SAN $EXTRA -I$REPO/include -I$REPO/src"
  for f in $REPO/src/*.c; do
    clang $CF $REDIR -c $f -o $DIR/$(basename $f .c).o &
  done
  SRC=$V/harness/harness.c
  [ "$VAR" = tsan ] && SRC=$V/harness/threads.c
  clang $CF -c $SRC -o $DIR/main.o &
  wait
  clang $SAN $DIR/*.o -o $DIR/harness -lpthread
  rm -f $DIR/*.o
fi
echo $DIR/harness
