#!/bin/sh
# Builds the C harness against /repo's current working tree.
#   build_harness.sh <variant>     variant: asan | be | tsan | wrap | wrapbe (WRAP="sym ...")
# The binary is cached under /verif/.cache/harness/<variant>-<hash of sources>/harness; prints its path.
set -e
V=$(cd "$(dirname "$0")/.." && pwd)
REPO=${SBDF_REPO:-/repo}
VAR=${1:-asan}
HASH=$(cat $REPO/src/*.c $REPO/src/*.h $REPO/include/*.h $V/harness/*.c | sha1sum | cut -c1-16)
[ -n "$WRAP" ] && HASH="$HASH-$(echo $WRAP | sha1sum | cut -c1-6)"
DIR=$V/.cache/harness/$VAR-$HASH
if [ ! -x $DIR/harness ]; then
  mkdir -p $DIR
  # prune older builds of this variant
  for d in $V/.cache/harness/$VAR-*; do [ "$d" = "$DIR" ] || rm -rf "$d"; done
  REDIR="-Dmalloc=vf_malloc -Dcalloc=vf_calloc -Drealloc=vf_realloc -Dfree=vf_free"
  case $VAR in
    asan) SAN="-fsanitize=address,undefined -fno-sanitize-recover=all"; EXTRA="" ;;
    be)   SAN="-fsanitize=address,undefined -fno-sanitize-recover=all"; EXTRA="-D__sparc" ;;
    tsan) SAN="-fsanitize=thread"; EXTRA="" ;;
    wrap) SAN="-fsanitize=address,undefined -fno-sanitize-recover=all"; EXTRA="" ;;
    wrapbe) SAN="-fsanitize=address,undefined -fno-sanitize-recover=all"; EXTRA="-D__sparc" ;;
  esac
  # hooks guard (no hook commits exist; the define documents the convention)
  CF="-g -O1 -w -DSBDF_VERIF $SAN $EXTRA -I$REPO/include -I$REPO/src"
  for f in $REPO/src/*.c; do
    clang $CF $REDIR -c $f -o $DIR/$(basename $f .c).o &
  done
  SRC=$V/harness/harness.c
  [ "$VAR" = tsan ] && SRC=$V/harness/threads.c
  if [ -n "$WRAP" ]; then
    # C20 witness search: calls to the listed (forbidden) symbols end the process with status 97
    { echo '#include <unistd.h>'; for w in $WRAP; do printf 'void __wrap_%s(void) { static const char m[] = "# FORBIDDEN CALL %s\\n"; (void)!write(1, m, sizeof m - 1); _exit(97); }\n' "$w" "$w"; done; } > $DIR/wrap.c
    clang -g -O1 -w -c $DIR/wrap.c -o $DIR/wrap.o
  fi
  clang $CF -c $SRC -o $DIR/main.o &
  wait
  # forbidden symbols are redirected in the library's objects only (the harness itself may print)
  for w in $WRAP; do for o in $DIR/*.o; do case $o in */main.o|*/wrap.o) ;; *) objcopy --redefine-sym $w=__wrap_$w $o ;; esac; done; done
  clang $SAN $DIR/*.o -o $DIR/harness -lpthread
  rm -f $DIR/*.o
fi
echo $DIR/harness
