#!/bin/sh
# Runs the repository's own test suite (guard off: no -D of ours) in a scratch build dir.
set -e
B=$(mktemp -d /var/tmp/sbdf-baseline.XXXXXX)
trap 'cd /; rm -rf "$B"' EXIT
cmake -G Ninja -S /repo -B "$B" >"$B/cmake.log" 2>&1 || { cat "$B/cmake.log"; exit 2; }
cmake --build "$B" >"$B/build.log" 2>&1 || { cat "$B/build.log"; exit 2; }
ctest --test-dir "$B" -j8 --timeout 900 2>&1 | tail -8
