#!/bin/sh
# reverify_all.sh [ids...] : every stored seeded change against the quick tier of its property; one line per change
V=$(cd "$(dirname "$0")/.." && pwd)
cd $V
sh tools/setup.sh >/dev/null 2>&1
for d in ${@:-$(ls -d seeded/C*-m* | sort)}; do
  d=${d%/}; id=$(basename $d); p=${id%%-*}
  out=$(tools/try_mutant.sh $V/$d/patch.diff $p 2>&1)
  if echo "$out" | grep -q VIOLATION; then echo "$id detected"; elif echo "$out" | grep -q "PATCH FAILED"; then echo "$id PATCH-FAILED"; else echo "$id MISSED"; fi
done
