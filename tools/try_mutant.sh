#!/bin/sh
# try_mutant.sh <patch.diff> <prop> [tier]  : runs a check against a scratch copy of /repo with the patch applied
V=$(cd "$(dirname "$0")/.." && pwd)
P=$1; PROP=$2; TIER=${3:-quick}
D=$(mktemp -d /tmp/mut.XXXXXX)
git -C /repo archive HEAD | tar -x -C $D
if ! (cd $D && patch -p1 -s < $P); then echo "PATCH FAILED"; rm -rf $D; exit 3; fi
cd $V && SBDF_REPO=$D ./check $PROP $TIER 2>&1 | grep -v conda | grep -E "VIOLATION|KNOWN|quick:|thorough:|note:" | head -5
rm -rf $D
