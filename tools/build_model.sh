#!/bin/sh
# Builds the Coq development (full .vo), extracts the model and compiles the OCaml driver.
# Output: /verif/.cache/model/driver
set -e
V=$(cd "$(dirname "$0")/.." && pwd)
mkdir -p $V/.cache/model
python3 $V/tools/gen_consts.py
cd $V/coq
[ -f Makefile ] || coq_makefile -f _CoqProject -o Makefile >/dev/null
timeout 3000 make -j16 ${MAKE_TARGETS:-} 2>&1 | grep -v 'conda' | grep -v '^COQ' || true
cd $V/.cache/model
if [ ! -f driver ] || [ -n "$(find $V/coq -maxdepth 1 -name '*.vo' -newer driver | head -1)" ] || [ -n "$(find $V/coq/Gen -name '*.vo' -newer driver | head -1)" ] || [ $V/model/driver.ml -nt driver ] || [ $V/coq/Extract.v -nt driver ]; then
  timeout 600 coqc -Q $V/coq Sbdf $V/coq/Extract.v -o $V/.cache/model/Extract.vo >/dev/null
  cp $V/model/driver.ml .
  ocamlfind ocamlopt -O3 -w -a -package str model.mli model.ml driver.ml -o driver 2>&1 | grep -v conda || true
  [ -x driver ] || { echo "driver build failed"; exit 2; }
fi
