#!/usr/bin/env python3
"""c2imp.py - translates whole C functions of /repo/src into the deep-embedded mini-C of coq/Imp.v
(coq/Gen/Prog.v) on every run, from clang 14's JSON AST.  Syntax-directed: one IR constructor per
AST node, no simplification.  Anything outside the subset makes the translation of that function
fail loudly (the function is omitted, and the theorems of coq/ImpFacts.v that mention it no longer
compile).

Subset: locals and parameters of integer / char* type; integer and character literals; *p and
*p++ as rvalue, *p++ = e and *p = e as store; x = e, x op= e, ++x, x++ on locals; + - * << >> & | ^
< <= > >= == != && || ! ?: ; integral casts to int / unsigned char / char; if, while, for (without
continue; break allowed), return, blocks, declarations with or without initialiser; unsigned int
arithmetic (EBinU); fread(&x, 1, 1, f) / fwrite(&x, 1, 1, f) with x an unsigned char local and f a
FILE* parameter (EReadByte / EWriteByte), compared with a literal; *v = e with v an int* parameter
(the pseudo-variable "*v").
Refused: anything else, and any binary operator / store whose two operands both touch a variable
that one of them modifies (the result would depend on the evaluation order)."""
import json, os, subprocess, sys

REPO = os.environ.get("SBDF_REPO", "/repo")
V = os.path.join(os.path.dirname(os.path.abspath(__file__)), "..")
OUT = os.environ.get("C2IMP_OUT") or os.path.join(V, "coq", "Gen", "Prog.v")

WANTED = [("sbdfstring.c", "sbdf_convert_utf8_to_iso88591"), ("sbdfstring.c", "sbdf_convert_iso88591_to_utf8"),
          ("internals.c", "sbdf_read_7bitpacked_int32"), ("internals.c", "sbdf_write_7bitpacked_int32"),
          # the byte-order conversion under both build configurations (src/bswap.c keys on __sparc)
          ("bswap.c", "sbdf_swap", [], "prog_sbdf_swap_le"), ("bswap.c", "sbdf_swap", ["-D__sparc"], "prog_sbdf_swap_be"),
          # the framing layer: single bytes, section markers, the file header, value type ids (these call each other)
          ("internals.c", "sbdf_read_int8"), ("internals.c", "sbdf_write_int8"),
          ("fileheader.c", "sbdf_sec_write"), ("fileheader.c", "sbdf_sec_read"), ("fileheader.c", "sbdf_sec_expect"),
          ("fileheader.c", "sbdf_fh_write_cur"), ("fileheader.c", "sbdf_fh_read"),
          ("valuetype.c", "sbdf_vt_write"), ("valuetype.c", "sbdf_vt_read"),
          # 32-bit integers in the default (little-endian) configuration: four bytes, then sbdf_swap (a no-op there)
          ("internals.c", "sbdf_read_int32"), ("internals.c", "sbdf_write_int32"),
          ("internals.c", "sbdf_skip_string"), ("internals.c", "sbdf_calculate_array_capacity"),
          # strings as the library stores them (an int length header in front of the bytes) and their writer
          ("internals.c", "sbdf_get_array_length"), ("sbdfstring.c", "sbdf_str_len"), ("internals.c", "sbdf_write_string"),
          # the comparison helpers (memcmp on the common prefix, then the lengths)
          ("sbdfstring.c", "sbdf_str_cmp"), ("bytearray.c", "sbdf_ba_get_len"), ("bytearray.c", "sbdf_ba_memcmp"),
          # creating, copying and releasing stored strings / byte arrays (malloc with a failure oracle, memcpy, strlen)
          ("internals.c", "sbdf_allocate_array"), ("internals.c", "sbdf_dispose_array"), ("internals.c", "sbdf_copy_array"),
          ("sbdfstring.c", "sbdf_str_create_len"), ("sbdfstring.c", "sbdf_str_create"), ("sbdfstring.c", "sbdf_str_destroy"),
          ("sbdfstring.c", "sbdf_str_copy"), ("bytearray.c", "sbdf_ba_create"), ("bytearray.c", "sbdf_ba_destroy"),
          # reading a string from a stream into a fresh block (bulk fread into the memory)
          ("internals.c", "sbdf_read_string"),
          # structs and arrays of pointers (the cell heap): metadata lists, objects, slices
          ("metadata.c", "sbdf_md_create"), ("metadata.c", "sbdf_md_set_immutable"), ("metadata.c", "sbdf_md_cnt"), ("metadata.c", "sbdf_md_exists"),
          ("object.c", "sbdf_obj_destroy"), ("object.c", "sbdf_obj_eq"), ("valuearray.c", "sbdf_va_row_cnt"), ("valuearray.c", "sbdf_va_destroy"),
          ("columnslice.c", "sbdf_cs_create"), ("columnslice.c", "sbdf_cs_row_cnt"), ("columnslice.c", "sbdf_cs_get_property"),
          # releasing containers; unlinking a metadata entry
          ("metadata.c", "sbdf_md_remove"), ("metadata.c", "sbdf_md_destroy"),
          ("columnslice.c", "sbdf_cs_destroy_all"), ("columnslice.c", "sbdf_cs_destroy"),
          ("tableslice.c", "sbdf_ts_create"), ("tableslice.c", "sbdf_ts_destroy"), ("tablemetadata.c", "sbdf_tm_destroy"),
          # growing arrays of pointers
          ("internals.c", "sbdf_alloc"), ("tableslice.c", "sbdf_ts_add"), ("columnslice.c", "sbdf_cs_add_property"),
          # skipping: objects, value arrays (the shared reader / skipper sbdf_read_valuearray_int is translated IN PART: what it
          # does with a non-null handle - allocation, reading into structs - becomes SFault, so only its skipping paths can run)
          ("object.c", "sbdf_skip_objects"), ("object.c", "sbdf_obj_skip_arr"), ("object.c", "sbdf_obj_skip"),
          ("valuearray.c", "sbdf_read_valuearray_int"), ("valuearray.c", "sbdf_va_skip"), ("columnslice.c", "sbdf_cs_skip"),
          ("object.c", "sbdf_read_objects"), ("object.c", "sbdf_obj_read_arr"), ("object.c", "sbdf_obj_read"),
          ("valuearray.c", "sbdf_va_read"), ("tableslice.c", "sbdf_ts_write_end"),
          # goto end (the common clean-up) as a loop that runs once
          ("columnslice.c", "sbdf_cs_read"),
          # p[i] on a char* flag array, p->arr + i as an out-cell
          ("tableslice.c", "sbdf_ts_read"),
          # calloc(n, 1) as a zeroed byte buffer; &slice (a local struct pointer) as an out-cell
          ("tableslice.c", "sbdf_ts_skip")]
PARTIAL = {"sbdf_read_valuearray_int"}          # untranslatable statements of these become SFault instead of failing the function
IN_PARTIAL = [False]
GLOBAL_VT = {}          # file-level sbdf_valuetype variables that are initialised with a literal and never written: name -> id
CALLABLE = set(w[1] for w in WANTED if len(w) == 2) | {"sbdf_swap"}


class Untranslatable(Exception):
    pass


OUTPARAMS = set()
EXTRA_LOCALS = set()
CELLPTR = ("int*", "sbdf_valuetype*", "char**")          # pointers to a single int cell (a value type is a struct with the one field id)


def strip_casts(n):
    n = unparen(n)
    while n.get("kind") in ("ImplicitCastExpr", "CStyleCastExpr") and n.get("inner"):
        n = unparen(n["inner"][0])
    return n


def callee_of(n):
    """name of the function a CallExpr calls directly, or None"""
    if n.get("kind") != "CallExpr": return None
    c = strip_casts(n["inner"][0])
    return c.get("referencedDecl", {}).get("name") if c.get("kind") == "DeclRefExpr" else None


def call_stmt(ret, n, scope, value_args_only=False):
    """SCall for a call of another translated function"""
    g = callee_of(n)
    if g not in CALLABLE: raise Untranslatable("call to " + str(g))
    args = []; cells = []; pre = []; post = []; fieldreads = set()
    for a in n["inner"][1:]:
        u = strip_casts(a)
        if value_args_only and (u.get("kind") == "UnaryOperator" and u.get("opcode") == "&"):
            raise Untranslatable("a call inside an expression that passes an address")
        if u.get("kind") == "UnaryOperator" and u.get("opcode") == "&" and member_cell(unparen(u["inner"][0]), scope) is not None and not value_args_only:
            p_, fp, idx, isp = member_cell(unparen(u["inner"][0]), scope)
            if fp.w or fp.io: raise Untranslatable("address of a field reached through side effects")
            # only a callee that takes a void** works on the cell itself (sbdf_alloc); every other pointer-to-pointer parameter is an
            # out-cell handed over by copy-in / copy-out, which the address of a field cannot be
            if norm_t(qt(unparen(a))) != "void**":
                # g(..., &p->f) with an out-cell parameter: the field is handed over like any other cell, by copy-in / copy-out -
                # written out here as  $a = p->f;  g(..., &$a);  p->f = $a;  (p itself must not be touched by the call)
                if not is_pp(qt(unparen(a))): raise Untranslatable("the address of a field passed as " + qt(unparen(a)))
                tmp = "$a%d" % (len([x for x in EXTRA_LOCALS if x.startswith("$a")]) + 1)
                EXTRA_LOCALS.add(tmp)
                pre.append('(SExpr (EAssign "%s" (ECellLoad %s (EConst %d) %s)))' % (tmp, p_, idx, coq_bool(isp)))
                post.append('(SExpr (ECellStore %s (EConst %d) (EVar "%s")))' % (p_, idx, tmp))
                fieldreads |= fp.r
                cells.append(tmp); args.append('(AAddr "%s")' % tmp); continue
            args.append("(AVal (EFieldAddr %s (EConst %d)))" % (p_, idx)); continue
        elem = None
        if (u.get("kind") == "UnaryOperator" and u.get("opcode") == "&" and unparen(u["inner"][0]).get("kind") == "ArraySubscriptExpr"
                and is_pp(qt(unparen(unparen(u["inner"][0])["inner"][0])))):
            elem = (unparen(u["inner"][0])["inner"][0], unparen(u["inner"][0])["inner"][1])
        elif (u.get("kind") == "BinaryOperator" and u.get("opcode") == "+" and is_pp(qt(unparen(u["inner"][0]))) and qt(unparen(u["inner"][1])) == "int"
                and strip_casts(u["inner"][0]).get("kind") == "MemberExpr"):
            elem = (u["inner"][0], u["inner"][1])          # p->arr + i: the same element
        if elem is not None and is_pp(qt(unparen(a))) and norm_t(qt(unparen(a))) != "void**" and not value_args_only:
            # g(..., &p->arr[i]) / g(..., p->arr + i) with an out-cell parameter: the element is handed over by copy-in / copy-out,
            #   $a = p->arr[i];  g(..., &$a);  p->arr[i] = $a;      (the call must touch neither p->arr nor i)
            p_, fp = expr(elem[0], scope); i_, fi = expr(elem[1], scope)
            if fp.w or fp.io or fi.w or fi.io: raise Untranslatable("address of an element reached through side effects")
            tmp = "$a%d" % (len([x for x in EXTRA_LOCALS if x.startswith("$a")]) + 1)
            EXTRA_LOCALS.add(tmp)
            pre.append('(SExpr (EAssign "%s" (ECellLoad %s %s true)))' % (tmp, p_, i_))
            post.append('(SExpr (ECellStore %s %s (EVar "%s")))' % (p_, i_, tmp))
            fieldreads |= fp.r | fi.r
            cells.append(tmp); args.append('(AAddr "%s")' % tmp); continue
        if u.get("kind") == "UnaryOperator" and u.get("opcode") == "&":
            t = unparen(u["inner"][0])
            if t.get("kind") == "MemberExpr" and t.get("name") == "id" and t.get("isArrow"):
                b = strip_casts(t["inner"][0])
                if b.get("kind") == "DeclRefExpr" and b.get("referencedDecl", {}).get("kind") == "ParmVarDecl" and qt(b).replace(" ", "") == "sbdf_valuetype*":
                    nm = b["referencedDecl"]["name"]; OUTPARAMS.add("*" + nm); cells.append("*" + nm); args.append('(AFwd "%s")' % nm); continue
            v = var_of(t, scope)
            if v is not None and struct_of_ptr(qt(t)) and is_pp(qt(unparen(a))) and norm_t(qt(unparen(a))) != "void**":
                cells.append(v); args.append('(AAddr "%s")' % v); continue          # &p with p a local struct pointer, handed to an out-cell parameter
            if v is None or qt(t) not in ("int", "sbdf_valuetype"): raise Untranslatable("address of something that is not an int local")
            cells.append(v); args.append('(AAddr "%s")' % v); continue
        if u.get("kind") == "DeclRefExpr" and u.get("referencedDecl", {}).get("kind") == "ParmVarDecl" and (qt(u).replace(" ", "") in CELLPTR or (is_pp(qt(u)) and norm_t(qt(u)) != "void**" and norm_t(qt(unparen(a))) != "void**")):
            nm = u["referencedDecl"]["name"]; OUTPARAMS.add("*" + nm); cells.append("*" + nm); args.append('(AFwd "%s")' % nm); continue
        e, f = expr(a, scope)
        if (f.w or f.io) and len(n["inner"]) != 2: raise Untranslatable("argument with side effects")    # a single argument: nothing to be ordered against
        args.append("(AVal %s)" % e)
    if len(set(cells)) != len(cells): raise Untranslatable("one cell passed twice")
    if ret is not None and ret in cells: raise Untranslatable("result stored into a cell that is also passed")
    if fieldreads & (set(cells) | ({ret} if ret else set())): raise Untranslatable("the struct of a field passed by address is touched by the call")
    call = '(SCall %s "%s" [%s])' % ('(Some "%s")' % ret if ret else "None", g, "; ".join(args))
    if pre: return seq(pre + [call] + post)
    return call


def assign_call(n, scope):
    """x = g(...) with x a local and g a translated function -> (x, call) or None"""
    n = unparen(n)
    if n.get("kind") == "BinaryOperator" and n.get("opcode") == "=":
        v = var_of(n["inner"][0], scope)
        c = strip_casts(n["inner"][1])
        if v is not None and callee_of(c) in CALLABLE:
            return v, c
    return None


def ast_of(path, cfg=()):
    p = subprocess.run(["clang", "-fsyntax-only", "-w", "-I", REPO + "/include", "-I", REPO + "/src"] + list(cfg) +
                       ["-Xclang", "-ast-dump=json", path], capture_output=True, text=True)
    if p.returncode != 0:
        sys.stderr.write(p.stderr[-2000:]); sys.exit(2)
    return json.loads(p.stdout)


BIN = {"+": "Add", "-": "Sub", "*": "Mul", "/": "Div", "<<": "Shl", ">>": "Shr", "&": "BAnd", "|": "BOr", "^": "BXor",
       "<": "Lt", "<=": "Le", ">": "Gt", ">=": "Ge", "==": "Eq", "!=": "Ne", "%": "Mod"}
PENDING = []          # calls met inside an expression: hoisted in front of the statement, the result in a temporary
CTY = {"int": "TInt", "unsigned char": "TUChar", "char": "TChar", "const char": "TChar", "const unsigned char": "TUChar", "const int": "TInt",
       "unsigned int": "TUInt", "const unsigned int": "TUInt"}
SIZE_T = ("unsigned long", "size_t")


def qt(n):
    return n.get("type", {}).get("qualType", "")


def is_intlike(t):
    return t in CTY


def is_charptr(t):
    return t.replace("const ", "").replace(" const", "").replace("*const", "*").replace(" ", "") in ("char*", "unsignedchar*", "void*")


def elem_size(t):
    """size of the element a pointer type points to (what ++ and +n move by), or None"""
    t = t.replace("const ", "").replace(" ", "")
    if t in ("char*", "unsignedchar*", "void*"): return 1
    if t == "int*": return 4
    return None


LASTFIELD = [None]
CELLS_MODE = [False]      # the function has a void** parameter: it allocates arrays of pointers (sbdf_alloc)
STRUCTS = {}          # struct name -> [(field name, C type)]: one cell per field (a value type is a struct with the one int field id)


def load_structs(tu):
    def walk(n):
        if n.get("kind") == "RecordDecl" and n.get("name") and n.get("completeDefinition"):
            fs = [(c["name"], qt(c)) for c in n.get("inner", []) if c.get("kind") == "FieldDecl"]
            if fs: STRUCTS[n["name"]] = fs
        for c in n.get("inner", []):
            if isinstance(c, dict) and c.get("kind") in ("RecordDecl", "TypedefDecl", "LinkageSpecDecl"): walk(c)
    for c in tu.get("inner", []): walk(c)


def global_vts(tu):
    """file-level sbdf_valuetype variables initialised with { literal } that nothing in the file assigns to or takes the address of"""
    found = {}
    for n in tu.get("inner", []):
        if n.get("kind") == "VarDecl" and norm_t(qt(n)) == "sbdf_valuetype" and n.get("inner"):
            i = unparen(n["inner"][0])
            if i.get("kind") == "InitListExpr" and len(i.get("inner", [])) == 1:
                l = strip_casts(i["inner"][0])
                if l.get("kind") == "IntegerLiteral": found[n["name"]] = int(l["value"])
    def refs(x, acc):
        if x.get("kind") == "DeclRefExpr" and x.get("referencedDecl", {}).get("name") in found: acc.add(x["referencedDecl"]["name"])
        for c in x.get("inner", []):
            if isinstance(c, dict): refs(c, acc)
    bad = set()
    def walk(x):
        k = x.get("kind")
        if k in ("BinaryOperator", "CompoundAssignOperator") and (x.get("opcode") == "=" or k == "CompoundAssignOperator"):
            refs(x["inner"][0], bad)
        if k == "UnaryOperator" and x.get("opcode") in ("&", "++", "--"):
            refs(x["inner"][0], bad)
        for c in x.get("inner", []):
            if isinstance(c, dict): walk(c)
    for n in tu.get("inner", []):
        if n.get("kind") == "FunctionDecl": walk(n)
    return {k_: v for k_, v in found.items() if k_ not in bad}


def norm_t(t):
    return t.replace("const ", "").replace(" const", "").replace("*const", "*").replace("struct ", "").replace(" ", "")


def struct_of_ptr(t):
    t = norm_t(t)
    if t.endswith("*") and not t.endswith("**") and t[:-1] in STRUCTS and t[:-1] != "sbdf_valuetype": return t[:-1]
    return None


def is_pp(t):
    """pointer to pointer: an array of pointers (cells), or an out-parameter cell"""
    t = norm_t(t)
    return t.endswith("**") and not t.endswith("***")


def is_ptr_t(t):
    return norm_t(t).endswith("*")


def field_of(sname, fname):
    for i, (f, t) in enumerate(STRUCTS[sname]):
        if f == fname: return i, is_ptr_t(t)
    raise Untranslatable("field %s of %s" % (fname, sname))


def member_cell(s, scope):
    """an lvalue p->f (or p->vt.id): (term of p, fx, cell index, is the field a pointer)"""
    s = unparen(s)
    if s.get("kind") != "MemberExpr": return None
    if not s.get("isArrow"):
        inner = unparen(s["inner"][0])
        if s.get("name") == "id" and inner.get("kind") == "MemberExpr" and norm_t(qt(inner)) == "sbdf_valuetype":
            return member_cell(inner, scope)
        return None
    sn = struct_of_ptr(qt(s["inner"][0]))
    if sn is None: return None
    p, f = expr(s["inner"][0], scope)
    idx, isp = field_of(sn, s["name"])
    f.r.add("->%s.%d" % (sn, idx))
    LASTFIELD[0] = "->%s.%d" % (sn, idx)
    return p, f, idx, isp


def cellarr_local(n, scope):
    """a local variable (not a parameter) of pointer-to-pointer type: a pointer into an array of pointers"""
    n = unparen(n)
    if n.get("kind") == "DeclRefExpr" and n.get("referencedDecl", {}).get("kind") == "VarDecl" and is_pp(qt(n)):
        return var_of(n, scope)
    return None


def coq_bool(b):
    return "true" if b else "false"


def zlit(v):
    return "(%d)" % v


def var_of(n, scope):
    """name of the local/parameter an lvalue DeclRefExpr refers to"""
    n = unparen(n)
    if n.get("kind") == "DeclRefExpr" and n.get("referencedDecl", {}).get("kind") in ("VarDecl", "ParmVarDecl"):
        nm = n["referencedDecl"]["name"]
        if nm in scope: return nm
        raise Untranslatable("reference to non-local " + nm)
    return None


def unparen(n):
    while n.get("kind") in ("ParenExpr", "ConstantExpr") and n.get("inner"):
        n = n["inner"][0]
    return n


class Fx:
    """variables read / written by an expression (for the evaluation-order check)"""
    def __init__(self): self.r = set(); self.w = set(); self.io = False


def fx_join(a, b):
    c = Fx(); c.r = a.r | b.r; c.w = a.w | b.w; c.io = a.io or b.io; return c


def order_ok(a, b):
    return not (a.w & (b.r | b.w)) and not (b.w & (a.r | a.w)) and not (a.io and b.io)


def expr(n, scope):
    """-> (Gallina term of type expr, Fx)"""
    n = unparen(n)
    k = n.get("kind")
    if k == "IntegerLiteral":
        return "(EConst %s)" % zlit(int(n["value"])), Fx()
    if k == "CharacterLiteral":
        return "(EConst %s)" % zlit(int(n["value"])), Fx()
    if k == "UnaryExprOrTypeTraitExpr" and n.get("name") == "sizeof":
        t = n.get("argType", {}).get("qualType") or (qt(unparen(n["inner"][0])) if n.get("inner") else "")
        if t in ("char", "unsigned char", "signed char"): return "(EConst 1)", Fx()
        if t in ("int", "unsigned int"): return "(EConst 4)", Fx()
        if is_ptr_t(t): return "(EConst 8)", Fx()              # LP64
        raise Untranslatable("sizeof " + str(t))
    if k == "CallExpr":
        callee = unparen(n["inner"][0])
        while callee.get("kind") == "ImplicitCastExpr": callee = unparen(callee["inner"][0])
        cname = callee.get("referencedDecl", {}).get("name")
        if cname in ("fread", "fwrite") and len(n["inner"]) == 5:
            a0, a1, a2, a3 = [unparen(x) for x in n["inner"][1:]]
            def const_of(x):
                x = unparen(x)
                while x.get("kind") in ("ImplicitCastExpr", "CStyleCastExpr") and x.get("castKind") in ("IntegralCast", "NoOp"): x = unparen(x["inner"][0])
                if x.get("kind") == "IntegerLiteral": return int(x["value"])
                if x.get("kind") == "UnaryExprOrTypeTraitExpr" and x.get("name") == "sizeof":
                    t = x.get("argType", {}).get("qualType") or (qt(unparen(x["inner"][0])) if x.get("inner") else "")
                    return 1 if t in ("char", "unsigned char", "signed char") else 4 if t in ("int", "unsigned int") else None
                return None
            while a0.get("kind") in ("ImplicitCastExpr", "CStyleCastExpr") and a0.get("castKind") in ("BitCast", "NoOp", "LValueToRValue"): a0 = unparen(a0["inner"][0])
            while a3.get("kind") == "ImplicitCastExpr": a3 = unparen(a3["inner"][0])
            fparam = a3.get("kind") == "DeclRefExpr" and a3.get("referencedDecl", {}).get("kind") == "ParmVarDecl" and "FILE" in qt(a3)
            if const_of(a1) == 4 and const_of(a2) == 1 and fparam:
                # one int: fread(p, sizeof(int), 1, f) with p an int* parameter / fwrite(&v, sizeof(int), 1, f) with v an int variable
                if cname == "fread" and a0.get("kind") == "DeclRefExpr" and a0.get("referencedDecl", {}).get("kind") == "ParmVarDecl" and qt(a0).replace(" ", "") == "int*":
                    nm = "*" + a0["referencedDecl"]["name"]; OUTPARAMS.add(nm)
                    f = Fx(); f.io = True; f.w.add(nm); return '(EReadInt32 "%s")' % nm, f
                if cname == "fwrite" and a0.get("kind") == "UnaryOperator" and a0.get("opcode") == "&":
                    v = var_of(a0["inner"][0], scope)
                    if v is not None and qt(unparen(a0["inner"][0])) == "int":
                        f = Fx(); f.io = True; f.r.add(v); return '(EWriteInt32 (EVar "%s"))' % v, f
                raise Untranslatable(cname + " of an int in an unsupported form")
            if cname == "fwrite" and const_of(a1) == 1 and const_of(a2) is None and fparam and a0.get("kind") == "DeclRefExpr" \
                    and a0.get("referencedDecl", {}).get("kind") == "ParmVarDecl" and is_charptr(qt(a0)):
                pv = a0["referencedDecl"]["name"]
                cnt, fc = expr(n["inner"][3], scope)
                if fc.w or fc.io: raise Untranslatable("fwrite count with side effects")
                f = Fx(); f.io = True; f.r.add(pv); f.r |= fc.r
                return '(EWriteBuf (EVar "%s") %s)' % (pv, cnt), f
            if cname == "fread" and const_of(a1) == 1 and const_of(a2) is None and fparam and a0.get("kind") == "DeclRefExpr" \
                    and a0.get("referencedDecl", {}).get("kind") == "VarDecl" and is_charptr(qt(a0)) and var_of(a0, scope) is not None:
                # fread(t, 1, n, f) into a block of the memory (the stream is separate from the memory: "$strm")
                pv = var_of(a0, scope)
                cnt, fc = expr(n["inner"][3], scope)
                if fc.w or fc.io: raise Untranslatable("fread count with side effects")
                f = Fx(); f.io = True; f.r.add(pv); f.r |= fc.r
                return '(EReadBuf (EVar "%s") %s)' % (pv, cnt), f
            def side_effect_free_ptr(x):
                """*dest with dest a local pointer into an array of pointers, or a pointer field p->f: a char* read from a cell"""
                x0 = strip_casts(x)
                if x0.get("kind") == "UnaryOperator" and x0.get("opcode") == "*" and cellarr_local(strip_casts(x0["inner"][0]), scope): return True
                if member_cell(x0, scope) is not None and is_ptr_t(qt(x0)): return True
                return False
            if cname == "fread" and fparam and side_effect_free_ptr(n["inner"][1]) and const_of(a1) == 1 and const_of(a2) is None:
                # fread(q, 1, n, f) with q read from a cell
                pe, fp = expr(n["inner"][1], scope)
                cnt, fc = expr(n["inner"][3], scope)
                if fp.w or fp.io or fc.w or fc.io: raise Untranslatable("fread arguments with side effects")
                f = fx_join(fp, fc); f.io = True
                return "(EReadBuf %s %s)" % (pe, cnt), f
            if cname == "fread" and fparam and side_effect_free_ptr(n["inner"][1]) and const_of(a1) is None and const_of(a2) is None and qt(strip_casts(n["inner"][2])) == "int":
                # fread(q, sz, n, f): n items of sz bytes
                pe, fp = expr(n["inner"][1], scope)
                sz, fs = expr(strip_casts(n["inner"][2]) if strip_casts(n["inner"][2]).get("kind") != "DeclRefExpr" else n["inner"][2], scope)
                cnt, fc = expr(n["inner"][3], scope)
                if fp.w or fp.io or fc.w or fc.io or fs.w or fs.io: raise Untranslatable("fread arguments with side effects")
                f = fx_join(fx_join(fp, fs), fc); f.io = True
                return "(EReadItems %s %s %s)" % (pe, sz, cnt), f
            if not (a0.get("kind") == "UnaryOperator" and a0.get("opcode") == "&" and const_of(a1) == 1 and const_of(a2) == 1 and fparam):
                raise Untranslatable(cname + " other than (&x, 1, 1, f)")
            v = var_of(a0["inner"][0], scope)
            if v is None or qt(unparen(a0["inner"][0])) != "unsigned char": raise Untranslatable(cname + " on something that is not an unsigned char local")
            f = Fx(); f.io = True; f.stream = True
            if cname == "fread":
                f.w.add(v); return '(EReadByte "%s")' % v, f
            f.r.add(v); return '(EWriteByte (EVar "%s"))' % v, f
        if cname == "calloc" and len(n["inner"]) == 3:
            def sizeof_t(x):
                x = strip_casts(x)
                if x.get("kind") == "UnaryExprOrTypeTraitExpr" and x.get("name") == "sizeof":
                    return x.get("argType", {}).get("qualType") or (qt(unparen(x["inner"][0])) if x.get("inner") else "")
                return None
            a1, a2 = n["inner"][1], n["inner"][2]
            if sizeof_t(a1) is not None: a1, a2 = a2, a1
            t = sizeof_t(a2)
            if t is None and strip_casts(a2).get("kind") == "IntegerLiteral" and int(strip_casts(a2)["value"]) == 1:
                # calloc(n, 1): a zeroed byte buffer in the caller's memory (assigned to a char pointer)
                e_, f_ = expr(a1, scope)
                if f_.w or f_.io: raise Untranslatable("calloc count with side effects")
                f_.io = True
                return "(ECallocBytes %s)" % e_, f_
            if t is None: raise Untranslatable("calloc without a sizeof")
            if norm_t(t) in STRUCTS:
                u = strip_casts(a1)
                if not (u.get("kind") == "IntegerLiteral" and int(u["value"]) == 1): raise Untranslatable("calloc of several structs")
                f_ = Fx(); f_.io = True
                return "(ECalloc (EConst %d))" % len(STRUCTS[norm_t(t)]), f_
            if is_ptr_t(t):
                e_, f_ = expr(a1, scope)
                if f_.w or f_.io: raise Untranslatable("calloc count with side effects")
                f_.io = True
                return "(ECalloc %s)" % e_, f_
            raise Untranslatable("calloc of " + t)
        if cname in ("sbdf_ti_is_arr", "sbdf_get_unpacked_size", "sbdf_get_packed_size") and len(n["inner"]) == 2 and cname not in CALLABLE:
            e_, f_ = expr(n["inner"][1], scope)
            return '(ELeaf "%s" %s)' % (cname, e_), f_
        if cname == "strcmp" and len(n["inner"]) == 3:
            a_, fa = expr(n["inner"][1], scope); b_, fb = expr(n["inner"][2], scope)
            if fa.w or fb.w: raise Untranslatable("strcmp arguments with side effects")
            return "(EStrcmp %s %s)" % (a_, b_), fx_join(fa, fb)
        if cname == "realloc" and len(n["inner"]) == 3 and CELLS_MODE[0]:
            p_, fp = expr(n["inner"][1], scope); e_, f_ = expr(n["inner"][2], scope)
            if fp.w or f_.w or f_.io: raise Untranslatable("realloc arguments with side effects")
            f_ = fx_join(fp, f_); f_.io = True
            return "(ERealloc %s %s)" % (p_, e_), f_
        if cname == "malloc" and len(n["inner"]) == 2:
            e_, f_ = expr(n["inner"][1], scope)
            if f_.w or f_.io: raise Untranslatable("malloc size with side effects")
            f_.io = True
            return "(%s %s)" % ("EMallocCells" if CELLS_MODE[0] else "EMalloc", e_), f_
        if cname == "free" and len(n["inner"]) == 2:
            e_, f_ = expr(n["inner"][1], scope)
            f_.io = True
            return "(EFree %s)" % e_, f_
        if cname == "strlen" and len(n["inner"]) == 2:
            e_, f_ = expr(n["inner"][1], scope)
            return "(EStrlen %s)" % e_, f_
        if cname == "memcpy" and len(n["inner"]) == 4:
            d_, fd = expr(n["inner"][1], scope); s_, fs = expr(n["inner"][2], scope); c_, fc = expr(n["inner"][3], scope)
            if fd.w or fs.w or fc.w: raise Untranslatable("memcpy arguments with side effects")
            f_ = fx_join(fd, fx_join(fs, fc)); f_.io = True
            return "(EMemcpy %s %s %s)" % (d_, s_, c_), f_
        if cname == "memcmp" and len(n["inner"]) == 4:
            ps = []
            fj = Fx()
            for a in n["inner"][1:3]:
                u = strip_casts(a)
                if not ((u.get("kind") == "DeclRefExpr" and is_charptr(qt(u))) or (member_cell(u, scope) is not None and is_charptr(qt(u)))):
                    raise Untranslatable("memcmp on something that is not a char pointer variable or field")
                e_, f_ = expr(a, scope)
                if f_.w or f_.io: raise Untranslatable("memcmp argument with side effects")
                ps.append(e_); fj = fx_join(fj, f_)
            cnt, fc = expr(n["inner"][3], scope)
            if fc.w or fc.io: raise Untranslatable("memcmp count with side effects")
            return "(EMemcmp %s %s %s)" % (ps[0], ps[1], cnt), fx_join(fj, fc)
        if cname == "fseek" and len(n["inner"]) == 4:
            a0, a1, a2 = [strip_casts(x) for x in n["inner"][1:]]
            whence = a2.get("kind") == "IntegerLiteral" and int(a2["value"]) == 1          # SEEK_CUR
            fparam = a0.get("kind") == "DeclRefExpr" and a0.get("referencedDecl", {}).get("kind") == "ParmVarDecl" and "FILE" in qt(a0)
            off = unparen(n["inner"][2])
            if whence and fparam and qt(off) == "long" and off.get("kind") == "BinaryOperator" and off.get("opcode") == "*" \
                    and all(qt(strip_casts(x)) == "int" and qt(unparen(x)) == "long" for x in off["inner"]):
                # (long)c * sz with two ints: carried out in long
                ea, fa = expr(off["inner"][0], scope)
                eb, fb = expr(off["inner"][1], scope)
                if fa.w or fb.w or fa.io or fb.io: raise Untranslatable("fseek offset with side effects")
                f = fx_join(fa, fb); f.io = True; f.stream = True
                return "(ESeekCur (ELongMul %s %s))" % (ea, eb), f
            if whence and fparam and qt(strip_casts(n["inner"][2])) == "int":
                e, f = expr(n["inner"][2], scope)
                if isinstance(e, str) and e.startswith("(ECast"): pass
                f.io = True; f.stream = True
                return "(ESeekCur %s)" % e, f
            raise Untranslatable("fseek other than (f, int, SEEK_CUR)")
        if cname in CALLABLE:
            tmp = "$c%d" % (len(EXTRA_LOCALS) + 1)
            EXTRA_LOCALS.add(tmp)
            PENDING.append(call_stmt(tmp, n, scope, value_args_only=True))
            f = Fx(); f.r.add(tmp)
            return '(EVar "%s")' % tmp, f
        raise Untranslatable("call to " + str(cname))
    if k == "ImplicitCastExpr" or k == "CStyleCastExpr":
        ck = n.get("castKind")
        sub = n["inner"][0]
        if ck == "LValueToRValue":
            s = unparen(sub)
            if s.get("kind") == "DeclRefExpr" and s.get("referencedDecl", {}).get("kind") == "VarDecl" and s["referencedDecl"]["name"] not in scope \
                    and s["referencedDecl"]["name"] in GLOBAL_VT and norm_t(qt(s)) == "sbdf_valuetype":
                return "(EConst %s)" % zlit(GLOBAL_VT[s["referencedDecl"]["name"]]), Fx()
            v = var_of(s, scope)
            if v is not None:
                f = Fx(); f.r.add(v); return '(EVar "%s")' % v, f
            mc = member_cell(s, scope)
            if mc is not None:
                p, f, idx, isp = mc
                return "(ECellLoad %s (EConst %d) %s)" % (p, idx, coq_bool(isp)), f
            if s.get("kind") == "UnaryOperator" and s.get("opcode") == "*" and is_pp(qt(unparen(s["inner"][0]))):
                pv = unparen(s["inner"][0])
                while pv.get("kind") == "ImplicitCastExpr": pv = unparen(pv["inner"][0])
                if not (pv.get("kind") == "DeclRefExpr" and pv.get("referencedDecl", {}).get("kind") == "ParmVarDecl") or norm_t(qt(pv)) == "void**":
                    p, f = expr(s["inner"][0], scope)
                    return "(ECellLoad %s (EConst 0) %s)" % (p, coq_bool(is_ptr_t(qt(s)))), f
                nm = "*" + pv["referencedDecl"]["name"]; OUTPARAMS.add(nm)
                f = Fx(); f.r.add(nm); return '(EVar "%s")' % nm, f
            if s.get("kind") == "ArraySubscriptExpr" and is_pp(qt(unparen(s["inner"][0]))):
                p_, fp = expr(s["inner"][0], scope); i_, fi = expr(s["inner"][1], scope)
                if fp.w or fi.w: raise Untranslatable("subscript with side effects")
                return "(ECellLoad %s %s %s)" % (p_, i_, coq_bool(is_ptr_t(qt(s)))), fx_join(fp, fi)
            if s.get("kind") == "UnaryOperator" and s.get("opcode") == "*":
                p, f = expr(s["inner"][0], scope)
                return "(EDeref %s)" % p, f
            if s.get("kind") == "ArraySubscriptExpr" and qt(s) == "int":
                base = unparen(s["inner"][0])
                if base.get("kind") == "CStyleCastExpr" and base.get("castKind") == "BitCast" and qt(base).replace(" ", "") in ("int*", "constint*"):
                    p_, fp = expr(base["inner"][0], scope)
                    i_, fi = expr(s["inner"][1], scope)
                    if fp.w or fi.w: raise Untranslatable("subscript with side effects")
                    return "(ELoadInt32 %s %s)" % (p_, i_), fx_join(fp, fi)
                raise Untranslatable("subscript of something that is not ((int*)p)")
            if s.get("kind") == "ArraySubscriptExpr" and qt(s) == "char" and is_charptr(qt(unparen(s["inner"][0]))):
                # p[i] on a char pointer into the caller's memory: *(p + i)
                p_, fp = expr(s["inner"][0], scope); i_, fi = expr(s["inner"][1], scope)
                if fp.w or fi.w: raise Untranslatable("subscript with side effects")
                return "(EDeref (EPtrAdd %s %s))" % (p_, i_), fx_join(fp, fi)
            if s.get("kind") == "MemberExpr" and s.get("name") == "id":
                b = strip_casts(s["inner"][0])
                if b.get("kind") == "DeclRefExpr" and b.get("referencedDecl", {}).get("kind") == "ParmVarDecl":
                    nm = b["referencedDecl"]["name"]; t = qt(b).replace(" ", "")
                    if t == "sbdf_valuetype" and not s.get("isArrow"):
                        f = Fx(); f.r.add(nm); return '(EVar "%s")' % nm, f
                    if t == "sbdf_valuetype*" and s.get("isArrow"):
                        OUTPARAMS.add("*" + nm); f = Fx(); f.r.add("*" + nm); return '(EVar "*%s")' % nm, f
            raise Untranslatable("rvalue of " + str(s.get("kind")))
        if ck == "IntegralCast":
            t = qt(n)
            if t == "long" and qt(unparen(sub)) == "int":
                return expr(sub, scope)            # int -> long (the offset of fseek): value preserving
            if t in SIZE_T:
                # only for comparing the count returned by fread / fwrite with a literal
                u = unparen(sub)
                if u.get("kind") == "IntegerLiteral" and 0 <= int(u["value"]) < 2 ** 31: return expr(sub, scope)
                if qt(u) == "int":
                    e, f = expr(sub, scope); return "(ECast TSizeT %s)" % e, f      # faults on a negative value
                raise Untranslatable("conversion to size_t of " + qt(u))
            if t not in CTY: raise Untranslatable("cast to " + t)
            e, f = expr(sub, scope)
            return "(ECast %s %s)" % (CTY[t], e), f
        if ck == "NoOp" or (ck == "BitCast" and elem_size(qt(n)) and elem_size(qt(sub))):
            return expr(sub, scope)
        if ck == "BitCast" and is_ptr_t(qt(n)) and is_ptr_t(qt(sub)) and (is_pp(qt(n)) or struct_of_ptr(qt(n)) or norm_t(qt(n)) in ("void*", "char*", "unsignedchar*")) \
                and (is_pp(qt(sub)) or struct_of_ptr(qt(sub)) or norm_t(qt(sub)) in ("void*", "char*", "unsignedchar*")):
            return expr(sub, scope)            # pointers are untyped values: what they point to is decided where they are used
        if ck == "NullToPointer":
            return "ENull", Fx()
        raise Untranslatable("cast kind " + str(ck))
    if k == "UnaryOperator":
        op = n.get("opcode")
        sub = n["inner"][0]
        if op in ("++", "--") and member_cell(sub, scope) is not None and qt(unparen(sub)) == "int":
            p_, fp, idx, isp = member_cell(sub, scope)
            if fp.w or fp.io: raise Untranslatable(op + " on a field reached through side effects")
            fp.w.add(LASTFIELD[0])
            return "(ECellStepF %s (EConst %d) %s %s)" % (p_, idx, zlit(1 if op == "++" else -1), coq_bool(bool(n.get("isPostfix")))), fp
        if op in ("++", "--"):
            v = var_of(sub, scope)
            if v is None: raise Untranslatable(op + " on a non-variable")
            f = Fx(); f.r.add(v); f.w.add(v)
            if cellarr_local(sub, scope) is not None:
                return '(ECellStep "%s" %s %s)' % (v, zlit(1 if op == "++" else -1), coq_bool(bool(n.get("isPostfix")))), f
            es = elem_size(qt(sub))
            if es and es != 1:
                return '(%s "%s" %s)' % ("EPostAdd" if n.get("isPostfix") else "EPreAdd", v, zlit(es if op == "++" else -es)), f
            return '(%s%s "%s")' % ("EPost" if n.get("isPostfix") else "EPre", "Inc" if op == "++" else "Dec", v), f
        if op == "!":
            e, f = expr(sub, scope); return "(ELNot %s)" % e, f
        if op == "-":
            e, f = expr(sub, scope); return "(EBin Sub (EConst 0) %s)" % e, f
        if op == "+":
            return expr(sub, scope)
        raise Untranslatable("unary " + str(op))
    if k == "BinaryOperator":
        op = n.get("opcode")
        a, b = n["inner"]
        if op == "=":
            la = unparen(a)
            v = var_of(la, scope)
            if v is not None:
                e, f = expr(b, scope)
                if v in f.w: raise Untranslatable("assignment to a variable its right side modifies")
                f.w.add(v)
                return '(EAssign "%s" %s)' % (v, e), f
            mc = member_cell(la, scope)
            if mc is not None:
                p, fp, idx, isp = mc
                e, fe = expr(b, scope)
                if fp.w or fe.w: raise Untranslatable("field store with side effects")
                f = fx_join(fp, fe); f.io = True
                return "(ECellStore %s (EConst %d) %s)" % (p, idx, e), f
            if la.get("kind") == "ArraySubscriptExpr" and is_pp(qt(unparen(la["inner"][0]))):
                p_, fp = expr(la["inner"][0], scope); i_, fi = expr(la["inner"][1], scope); e, fe = expr(b, scope)
                if fp.w or fe.w or not (order_ok(fp, fi) and order_ok(fi, fe)): raise Untranslatable("subscripted store whose operands depend on the evaluation order")
                f = fx_join(fp, fx_join(fi, fe)); f.io = True
                return "(ECellStore %s %s %s)" % (p_, i_, e), f
            if la.get("kind") == "UnaryOperator" and la.get("opcode") == "*" and is_pp(qt(unparen(la["inner"][0]))):
                pv = unparen(la["inner"][0])
                while pv.get("kind") == "ImplicitCastExpr": pv = unparen(pv["inner"][0])
                if pv.get("kind") == "DeclRefExpr" and pv.get("referencedDecl", {}).get("kind") == "ParmVarDecl" and norm_t(qt(pv)) != "void**":
                    nm = "*" + pv["referencedDecl"]["name"]; OUTPARAMS.add(nm)
                    e, f = expr(b, scope); f.w.add(nm)
                    return '(EAssign "%s" %s)' % (nm, e), f
                p_, fp = expr(la["inner"][0], scope); e, fe = expr(b, scope)
                if fp.w or fe.w: raise Untranslatable("store through a pointer with side effects")
                f = fx_join(fp, fe); f.io = True
                return "(ECellStore %s (EConst 0) %s)" % (p_, e), f
            if la.get("kind") == "MemberExpr" and la.get("name") == "id" and la.get("isArrow"):
                b_ = strip_casts(la["inner"][0])
                if b_.get("kind") == "DeclRefExpr" and b_.get("referencedDecl", {}).get("kind") == "ParmVarDecl" and qt(b_).replace(" ", "") == "sbdf_valuetype*":
                    nm = "*" + b_["referencedDecl"]["name"]; OUTPARAMS.add(nm)
                    e, f = expr(b, scope); f.w.add(nm)
                    return '(EAssign "%s" %s)' % (nm, e), f
            if la.get("kind") == "UnaryOperator" and la.get("opcode") == "*" and qt(unparen(la["inner"][0])).replace(" ", "") in ("int*", "char**"):
                pv = unparen(la["inner"][0])
                while pv.get("kind") == "ImplicitCastExpr": pv = unparen(pv["inner"][0])
                if pv.get("kind") == "DeclRefExpr" and pv.get("referencedDecl", {}).get("kind") == "ParmVarDecl":
                    nm = "*" + pv["referencedDecl"]["name"]
                    OUTPARAMS.add(nm)
                    e, f = expr(b, scope)
                    f.w.add(nm)
                    return '(EAssign "%s" %s)' % (nm, e), f
                if qt(unparen(la["inner"][0])).replace(" ", "") == "char**": raise Untranslatable("store through a char** that is not a parameter")
                # otherwise: an int stored into memory through a computed int pointer (below)
            if la.get("kind") == "UnaryOperator" and la.get("opcode") == "*" and elem_size(qt(unparen(la["inner"][0]))) == 4:
                p_, fp = expr(la["inner"][0], scope)
                e, fe = expr(b, scope)
                if not order_ok(fp, fe): raise Untranslatable("store whose operands depend on the evaluation order")
                f = fx_join(fp, fe); f.io = True
                return "(EStoreInt32 %s %s)" % (p_, e), f
            if la.get("kind") == "ArraySubscriptExpr" and elem_size(qt(unparen(la["inner"][0]))) == 1:
                p_, fp = expr(la["inner"][0], scope); i_, fi = expr(la["inner"][1], scope)
                e, fe = expr(b, scope)
                if fp.w or fi.w or fe.w: raise Untranslatable("subscripted store with side effects")
                f = fx_join(fp, fx_join(fi, fe)); f.io = True
                return "(EStore (EPtrAdd %s %s) %s)" % (p_, i_, e), f
            if la.get("kind") == "UnaryOperator" and la.get("opcode") == "*":
                p, fp = expr(la["inner"][0], scope)
                e, fe = expr(b, scope)
                if not order_ok(fp, fe): raise Untranslatable("store whose operands depend on the evaluation order")
                f = fx_join(fp, fe); f.io = True
                return "(EStore %s %s)" % (p, e), f
            raise Untranslatable("assignment to " + str(la.get("kind")))
        if op in ("&&", "||"):
            ea, fa = expr(a, scope); eb, fb = expr(b, scope)      # sequenced: no order check
            return "(%s %s %s)" % ("ELAnd" if op == "&&" else "ELOr", ea, eb), fx_join(fa, fb)
        if op == ",":
            raise Untranslatable("comma operator")
        if op in ("==", "!=") and is_ptr_t(qt(a)) and is_ptr_t(qt(b)):
            ea, fa = expr(a, scope); eb, fb = expr(b, scope)
            if not order_ok(fa, fb): raise Untranslatable("operands of %s depend on the evaluation order" % op)
            t = "(EPtrEq %s %s)" % (ea, eb)
            return (t if op == "==" else "(ELNot %s)" % t), fx_join(fa, fb)
        if op in BIN:
            if not (is_intlike(qt(unparen(a))) or qt(a) in CTY) and False: pass
            ea, fa = expr(a, scope); eb, fb = expr(b, scope)
            if not order_ok(fa, fb): raise Untranslatable("operands of %s depend on the evaluation order" % op)
            ta, tb = qt(a), qt(b)
            if op in ("+", "-") and elem_size(ta) and tb == "int":
                es = elem_size(ta) * (1 if op == "+" else -1)
                off = eb if es == 1 else "(EBin Mul (EConst %s) %s)" % (zlit(es), eb)
                return "(EPtrAdd %s %s)" % (ea, off), fx_join(fa, fb)
            if op == "*" and ta in SIZE_T and tb in SIZE_T and strip_casts(a).get("kind") != "IntegerLiteral" and strip_casts(b).get("kind") != "IntegerLiteral" \
                    and strip_casts(a).get("kind") != "UnaryExprOrTypeTraitExpr" and strip_casts(b).get("kind") != "UnaryExprOrTypeTraitExpr":
                return "(ESizeMul %s %s)" % (ea, eb), fx_join(fa, fb)      # two sizes that are both computed: 64-bit wrap-around, as the source does it
            if op == "*" and ta in SIZE_T and tb in SIZE_T:
                return "(EBin Mul %s %s)" % (ea, eb), fx_join(fa, fb)      # a size from a count: checked as an int (faults beyond 2^31, where the source would still be fine)
            if op == "+" and ta in SIZE_T and tb in SIZE_T:
                return "(ESizeAdd %s %s)" % (ea, eb), fx_join(fa, fb)      # sizes: non-negative, 64-bit wrap-around
            if ta in SIZE_T and tb in SIZE_T and op in ("==", "!=", "<", "<=", ">", ">="):
                return "(EBin %s %s %s)" % (BIN[op], ea, eb), fx_join(fa, fb)        # counts of fread / fwrite: 0 or 1
            if not (ta in CTY and tb in CTY): raise Untranslatable("operator %s on %s, %s" % (op, ta, tb))
            uns = CTY[ta] == "TUInt" if op in ("<<", ">>") else (CTY[ta] == "TUInt" and CTY[tb] == "TUInt")
            if not uns and (CTY[ta] == "TUInt" or CTY[tb] == "TUInt") and op not in ("<<", ">>"): raise Untranslatable("mixed signedness in %s" % op)
            if uns is False and op in ("<<", ">>") and CTY[ta] != "TInt": raise Untranslatable("shift of " + ta)
            return "(%s %s %s %s)" % ("EBinU" if uns else "EBin", BIN[op], ea, eb), fx_join(fa, fb)
        raise Untranslatable("operator " + str(op))
    if k == "CompoundAssignOperator":
        op = n.get("opcode")[:-1]
        a, b = n["inner"]
        v = var_of(a, scope)
        if v is None or op not in BIN: raise Untranslatable("compound assignment " + str(n.get("opcode")))
        lt = qt(a)
        ct = n.get("computeLHSType", {}).get("qualType", lt)
        rt = n.get("computeResultType", {}).get("qualType", ct)
        if lt not in CTY or ct not in ("int", "unsigned int") or rt != ct: raise Untranslatable("compound assignment on %s computed in %s" % (lt, ct))
        e, f = expr(b, scope)
        if v in f.w: raise Untranslatable("compound assignment to a variable its right side modifies")
        f.r.add(v); f.w.add(v)
        lhs = '(EVar "%s")' % v if lt == ct else '(ECast %s (EVar "%s"))' % (CTY[ct], v)
        val = "(%s %s %s %s)" % ("EBinU" if ct == "unsigned int" else "EBin", BIN[op], lhs, e)
        if lt != ct: val = "(ECast %s %s)" % (CTY[lt], val)
        return '(EAssign "%s" %s)' % (v, val), f
    if k == "ConditionalOperator":
        c, fc = expr(n["inner"][0], scope); a, fa = expr(n["inner"][1], scope); b, fb = expr(n["inner"][2], scope)
        return "(ECond %s %s %s)" % (c, a, b), fx_join(fc, fx_join(fa, fb))
    if k == "DeclRefExpr":
        raise Untranslatable("lvalue used as a value without conversion")
    raise Untranslatable("expression " + str(k))


def has_continue_or_break(n):
    if n.get("kind") in ("ContinueStmt", "SwitchStmt", "DoStmt"): return True
    if n.get("kind") == "GotoStmt" and not GOTO["on"]: return True
    return any(has_continue_or_break(c) for c in n.get("inner", []) if isinstance(c, dict))


# goto: only forward jumps to ONE label that is a statement of the function's outermost block ("goto end;" to the common
# clean-up).  The statements in front of the label become the body of a loop that runs once,
#     while (1) { <statements> ; break; }   <the labelled statement and what follows>
# and "goto end" becomes "break" - directly when it is not inside a C loop, and as "$goto = 1; break" inside one, with
# "if ($goto) break;" placed after that loop (so the jump leaves every enclosing loop in turn).
GOTO = {"on": False, "depth": 0, "label": None}


def has_goto(n):
    if n.get("kind") == "GotoStmt": return True
    return any(has_goto(c) for c in n.get("inner", []) if isinstance(c, dict))


def function_body(body, scope, declared):
    GOTO.update(on=False, depth=0, label=None)
    if not has_goto(body): return stmt(body, scope, declared)
    kids = body.get("inner", [])
    labs = [i for i, c in enumerate(kids) if c.get("kind") == "LabelStmt"]
    def count_labels(n): return (1 if n.get("kind") == "LabelStmt" else 0) + sum(count_labels(c) for c in n.get("inner", []) if isinstance(c, dict))
    if len(labs) != 1 or count_labels(body) != 1: raise Untranslatable("goto other than to one label in the outermost block")
    li = labs[0]
    if any(has_goto(c) for c in kids[li:]): raise Untranslatable("a backward goto")
    def targets(n):
        out = [n.get("targetLabelDeclId")] if n.get("kind") == "GotoStmt" else []
        for c in n.get("inner", []):
            if isinstance(c, dict): out += targets(c)
        return out
    if any(t != kids[li].get("declId") for t in targets(body)): raise Untranslatable("goto to an unknown label")
    GOTO.update(on=True, depth=0, label=kids[li].get("declId"))
    EXTRA_LOCALS.add("$goto")
    pre = [stmt(c, scope, declared) for c in kids[:li]]
    GOTO["on"] = False
    post = [stmt(kids[li]["inner"][0], scope, declared)] + [stmt(c, scope, declared) for c in kids[li + 1:]]
    return seq(['(SExpr (EAssign "$goto" (EConst 0)))', "(SWhile (EConst 1) %s)" % seq(pre + ["SBreak"])] + post)


def after_loop(loop, body):
    """behind a C loop whose body holds a goto: leave the next enclosing loop too"""
    if GOTO["on"] and has_goto(body): return '(SSeq %s (SIf (EVar "$goto") SBreak SSkip))' % loop
    return loop


def seq(parts):
    parts = [p for p in parts]
    if not parts: return "SSkip"
    out = parts[-1]
    for p in reversed(parts[:-1]):
        out = "(SSeq %s %s)" % (p, out)
    return out


def stmt(n, scope, declared):
    """a statement; in a function translated in part, one that cannot be expressed becomes SFault (reaching it is a fault)"""
    if not IN_PARTIAL[0] or n.get("kind") in ("CompoundStmt",):
        return stmt0(n, scope, declared)
    saved = (set(scope), set(declared), set(EXTRA_LOCALS), set(OUTPARAMS))
    try:
        return stmt0(n, scope, declared)
    except Untranslatable as ex:
        del PENDING[:]
        scope.clear(); scope.update(saved[0]); declared.clear(); declared.update(saved[1])
        EXTRA_LOCALS.clear(); EXTRA_LOCALS.update(saved[2]); OUTPARAMS.clear(); OUTPARAMS.update(saved[3])
        if n.get("kind") == "DeclStmt":
            # the names stay declared (a later declaration of the same name is still refused), but nothing can read them
            for d in n.get("inner", []):
                if d.get("kind") == "VarDecl": declared.add(d["name"]); UNUSABLE.add(d["name"])
        return '(SFault "%s")' % str(ex).replace('"', "'")[:80]


UNUSABLE = set()
DECLTYPE = {}          # local name -> C type of its declaration(s)


def stmt0(n, scope, declared):
    """a statement; calls met inside its expressions are hoisted in front of it"""
    k = n.get("kind")
    if k in ("CompoundStmt", "NullStmt", "BreakStmt"):
        return stmt1(n, scope, declared)
    del PENDING[:]
    if k in ("WhileStmt", "ForStmt", "SwitchStmt"):
        out = stmt1(n, scope, declared)
        return out
    if k == "IfStmt":
        # only the condition belongs to this statement; the branches flush their own
        out = stmt1(n, scope, declared)
        return out
    out = stmt1(n, scope, declared)
    pre = list(PENDING); del PENDING[:]
    return seq(pre + [out]) if pre else out


def stmt1(n, scope, declared):
    k = n.get("kind")
    if k == "CompoundStmt":
        entry = set(scope)
        out = seq([stmt(c, scope, declared) for c in n.get("inner", [])])
        # what the block declared goes out of scope with it (the compiler has checked that nothing refers to it later);
        # a later block may declare the name again and reuse the slot: its declaration re-initialises it
        scope.intersection_update(entry)
        return out
    if k == "NullStmt":
        return "SSkip"
    if k == "DeclStmt":
        out = []
        for d in n.get("inner", []):
            if d.get("kind") != "VarDecl": raise Untranslatable("declaration of " + str(d.get("kind")))
            nm, t = d["name"], qt(d)
            if d.get("storageClass") in ("static", "extern"): raise Untranslatable("static local " + nm)
            if not (t in CTY or is_charptr(t) or t.replace(" ", "") == "int*" or struct_of_ptr(t) or is_pp(t) or (t == "sbdf_valuetype" and not d.get("inner"))): raise Untranslatable("local %s of type %s" % (nm, t))
            if nm in declared and (nm in scope or DECLTYPE.get(nm) != t): raise Untranslatable("second declaration of " + nm)
            declared.add(nm); DECLTYPE[nm] = t
            if d.get("inner"):
                try:
                    snap = (list(PENDING), set(EXTRA_LOCALS))
                    e, _ = expr(d["inner"][0], scope)
                    out.append('(SDecl "%s" (Some %s))' % (nm, e))
                except Untranslatable:
                    if not (callee_of(strip_casts(d["inner"][0])) in CALLABLE and t == "int"): raise
                    # int x = g(..., &y): the declaration, then the call storing into it
                    PENDING[:] = snap[0]; EXTRA_LOCALS.clear(); EXTRA_LOCALS.update(snap[1])
                    out.append('(SDecl "%s" None)' % nm)
                    out.append(call_stmt(nm, strip_casts(d["inner"][0]), scope))
            else:
                out.append('(SDecl "%s" None)' % nm)
            scope.add(nm)
        return seq(out)
    if k == "IfStmt" and assign_call(n["inner"][0], scope):
        inner = n["inner"]
        v, c = assign_call(inner[0], scope)
        a = stmt(inner[1], scope, declared)
        b = stmt(inner[2], scope, declared) if len(inner) > 2 else "SSkip"
        return '(SSeq %s (SIf (EVar "%s") %s %s))' % (call_stmt(v, c, scope), v, a, b)
    if k == "IfStmt" and len(n["inner"]) == 2 and unparen(n["inner"][0]).get("kind") == "BinaryOperator" and unparen(n["inner"][0]).get("opcode") == "&&" \
            and assign_call(unparen(n["inner"][0])["inner"][1], scope):
        # if (A && (x = g(...))) S  without else  is  if (A) { x = g(...); if (x) S }
        cond = unparen(n["inner"][0])
        del PENDING[:]
        a_, fa = expr(cond["inner"][0], scope)
        if PENDING: raise Untranslatable("a call in the left operand of &&")
        v, c = assign_call(cond["inner"][1], scope)
        body = stmt(n["inner"][1], scope, declared)
        return '(SIf %s (SSeq %s (SIf (EVar "%s") %s SSkip)) SSkip)' % (a_, call_stmt(v, c, scope), v, body)
    if k == "IfStmt":
        inner = n["inner"]
        del PENDING[:]
        c, _ = expr(inner[0], scope)
        pre = list(PENDING); del PENDING[:]
        a = stmt(inner[1], scope, declared)
        b = stmt(inner[2], scope, declared) if len(inner) > 2 else "SSkip"
        return seq(pre + ["(SIf %s %s %s)" % (c, a, b)])
    if k == "WhileStmt":
        if has_continue_or_break(n["inner"][1]): raise Untranslatable("break/continue in a loop")
        del PENDING[:]
        c, _ = expr(n["inner"][0], scope)
        if PENDING: raise Untranslatable("a call inside a loop condition")
        GOTO["depth"] += 1
        try: wb = stmt(n["inner"][1], scope, declared)
        finally: GOTO["depth"] -= 1
        return after_loop("(SWhile %s %s)" % (c, wb), n["inner"][1])
    if k == "ForStmt":
        init, _cv, cnd, inc, body = n["inner"]
        if has_continue_or_break(body): raise Untranslatable("break/continue in a loop")
        parts = []
        if init and init.get("kind"): parts.append(stmt(init, scope, declared) if init["kind"] in ("DeclStmt",) else "(SExpr %s)" % expr(init, scope)[0])
        c = expr(cnd, scope)[0] if cnd and cnd.get("kind") else "(EConst 1)"
        GOTO["depth"] += 1
        try: b = stmt(body, scope, declared)
        finally: GOTO["depth"] -= 1
        if inc and inc.get("kind"): b = "(SSeq %s (SExpr %s))" % (b, expr(inc, scope)[0])
        parts.append(after_loop("(SWhile %s %s)" % (c, b), body))
        return seq(parts)
    if k == "SwitchStmt":
        cond, body = n["inner"][0], n["inner"][1]
        c, fc = expr(cond, scope)
        if fc.w or fc.io or PENDING: raise Untranslatable("switch on an expression with side effects")
        if body.get("kind") != "CompoundStmt": raise Untranslatable("switch body")
        groups = []; labels = []; stmts = []
        def flat(x):
            # case A: case B: stmt  is nested: CaseStmt(A, CaseStmt(B, stmt)); default: stmt likewise
            if x.get("kind") == "CaseStmt":
                labels.append(x["inner"][0]); flat(x["inner"][-1])
            elif x.get("kind") == "DefaultStmt":
                labels.append(None); flat(x["inner"][-1])
            else:
                stmts.append(x)
        for x in body.get("inner", []):
            if x.get("kind") in ("CaseStmt", "DefaultStmt") and stmts:
                groups.append((labels, stmts)); labels = []; stmts = []
            flat(x)
        if labels: groups.append((labels, stmts))
        if any(None in ls for (ls, ss) in groups[:-1]) or any(None in ls and len(ls) > 1 for (ls, ss) in groups):
            raise Untranslatable("a default label that is not alone and last")
        def has_break(x):
            if x.get("kind") == "BreakStmt": return True
            return any(has_break(c_) for c_ in x.get("inner", []) if isinstance(c_, dict))
        bodies = []
        for (ls, ss) in groups:
            # a case ends in return, or in a break that is its last statement (control then goes on behind the switch); no fall-through
            if not ss or ss[-1].get("kind") not in ("ReturnStmt", "BreakStmt"): raise Untranslatable("a case that falls through")
            if ss[-1].get("kind") == "BreakStmt": ss = ss[:-1]
            if any(has_continue_or_break(x) or has_break(x) for x in ss): raise Untranslatable("break inside a case")
            if any(x.get("kind") == "DeclStmt" for x in ss): raise Untranslatable("a declaration directly under a case label")
            bodies.append(seq([stmt(x, scope, declared) for x in ss]))
        out = "SSkip"
        for (ls, ss), bodyt in reversed(list(zip(groups, bodies))):
            if None in ls:
                out = bodyt
                continue
            tests = ["(EBin Eq %s %s)" % (c, expr(l, scope)[0]) for l in ls]
            t = tests[0]
            for u in tests[1:]: t = "(ELOr %s %s)" % (t, u)
            out = "(SIf %s %s %s)" % (t, bodyt, out)
        return out
    if k == "BreakStmt":
        if GOTO["on"] and GOTO["depth"] == 0: raise Untranslatable("break outside a loop next to goto")
        return "SBreak"
    if k == "GotoStmt":
        if not GOTO["on"]: raise Untranslatable("goto")
        return "SBreak" if GOTO["depth"] == 0 else '(SSeq (SExpr (EAssign "$goto" (EConst 1))) SBreak)'
    if k == "ReturnStmt" and n.get("inner") and callee_of(strip_casts(n["inner"][0])) in CALLABLE:
        EXTRA_LOCALS.add("$ret")
        return '(SSeq %s (SReturn (EVar "$ret")))' % call_stmt("$ret", strip_casts(n["inner"][0]), scope)
    if k == "ReturnStmt":
        if not n.get("inner"): return "(SReturn (EConst 0))"          # return; in a void function: the value is never used
        return "(SReturn %s)" % expr(n["inner"][0], scope)[0]
    # an expression statement
    if assign_call(n, scope):
        v, c = assign_call(n, scope)
        return call_stmt(v, c, scope)
    if k == "CallExpr" and callee_of(n) in CALLABLE:
        return call_stmt(None, n, scope)
    if k == "CallExpr" and callee_of(n) == "memset" and len(n["inner"]) == 4:
        # memset(v, 0, sizeof(sbdf_valuetype)) on a value-type pointer parameter: the one field becomes 0
        a0, a1, a2 = [strip_casts(x) for x in n["inner"][1:]]
        if (a0.get("kind") == "DeclRefExpr" and a0.get("referencedDecl", {}).get("kind") == "ParmVarDecl" and qt(a0).replace(" ", "") == "sbdf_valuetype*"
                and a1.get("kind") == "IntegerLiteral" and int(a1["value"]) == 0
                and a2.get("kind") == "UnaryExprOrTypeTraitExpr" and a2.get("argType", {}).get("qualType") == "sbdf_valuetype"):
            nm = a0["referencedDecl"]["name"]; OUTPARAMS.add("*" + nm)
            return '(SExpr (EAssign "*%s" (EConst 0)))' % nm
        if is_pp(qt(a0)) and a1.get("kind") == "IntegerLiteral" and int(a1["value"]) == 0:
            # memset(p->arr, 0, n) on an array of pointers: n / 8 cells become null
            mc = member_cell(a0, scope)
            if mc is None: raise Untranslatable("memset of cells through something that is not a field")
            f0 = mc[1]; e0 = "(ECellLoad %s (EConst %d) true)" % (mc[0], mc[2])
            e2, f2 = expr(n["inner"][3], scope)
            if f0.w or f2.w or f0.io or f2.io or PENDING: raise Untranslatable("memset with side effects in its arguments")
            return "(SExpr (EMemsetCells %s %s))" % (e0, e2)
        raise Untranslatable("memset other than clearing a value type")
    e, _ = expr(n, scope)
    return "(SExpr %s)" % e


def main():
    lines = ["(* GENERATED by tools/c2imp.py from /repo/src (clang AST) - do not edit *)",
             "From Sbdf Require Import Imp.", "Local Open Scope Z_scope.", "Local Open Scope string_scope.", ""]
    cache = {}
    notes = []
    translated = []
    results = []
    for w in WANTED:
        fname, fn = w[0], w[1]
        cfg = tuple(w[2]) if len(w) > 2 else ()
        pname = w[3] if len(w) > 3 else "prog_" + fn
        path = os.path.join(REPO, "src", fname)
        if (path, cfg) not in cache: cache[(path, cfg)] = ast_of(path, cfg); load_structs(cache[(path, cfg)])
        decl = None
        for n in cache[(path, cfg)]["inner"]:
            if n.get("kind") == "FunctionDecl" and n.get("name") == fn and any(c.get("kind") == "CompoundStmt" for c in n.get("inner", [])):
                decl = n
        try:
            if decl is None: raise Untranslatable("definition not found")
            params = []
            for c in decl["inner"]:
                if c.get("kind") == "ParmVarDecl":
                    t = qt(c)
                    if not (t in CTY or is_charptr(t) or t.replace(" ", "") in ("FILE*", "int*", "sbdf_valuetype", "sbdf_valuetype*", "char**") or struct_of_ptr(t) or is_pp(t)): raise Untranslatable("parameter of type " + t)
                    params.append(c["name"])
            if len(set(params)) != len(params): raise Untranslatable("duplicate parameter names")
            body = [c for c in decl["inner"] if c.get("kind") == "CompoundStmt"][0]
            scope = set(params); declared = set(params)
            OUTPARAMS.clear(); EXTRA_LOCALS.clear(); DECLTYPE.clear()
            IN_PARTIAL[0] = fn in PARTIAL
            GLOBAL_VT.clear(); GLOBAL_VT.update(global_vts(cache[(path, cfg)]))
            CELLS_MODE[0] = any(c.get("kind") == "ParmVarDecl" and norm_t(qt(c)) == "void**" for c in decl["inner"])
            b = function_body(body, scope, declared)
            if "EDeref" in b and ("EReadByte" in b): raise Untranslatable("the input is used both as memory and as a stream")
            locs = [x for x in sorted(declared) if x not in params] + sorted(EXTRA_LOCALS) + sorted(OUTPARAMS)
            results.append([fn, pname, "Definition %s : func :=\n  {| fparams := [%s];\n     flocals := [%s];\n     fbody := %s |}."
                         % (pname, "; ".join('"%s"' % p for p in params), "; ".join('"%s"' % p for p in locs), b), None])
        except Untranslatable as ex:
            results.append([fn, pname, None, str(ex)])
    # a function that calls one that could not be translated cannot run either
    import re as _re
    changed = True
    while changed:
        changed = False
        ok = set(r[0] for r in results if r[2] is not None)
        for r in results:
            if r[2] is None: continue
            for g in _re.findall(r'\(SCall [^"]*(?:"[^"]*"[^"]*)?"(sbdf_\w+)"', r[2]):
                pass
            callees = set(_re.findall(r'"(sbdf_\w+)" \[', r[2]))
            bad = [g for g in callees if g not in ok]
            if bad:
                r[2] = None; r[3] = "calls %s, which could not be translated" % bad[0]; changed = True
    for fn, pname, text_, err in results:
        if text_ is not None:
            translated.append((fn, pname)); lines.append(text_); lines.append("")
        else:
            notes.append("%s: %s" % (pname, err))
            lines.append("(* %s could not be translated: %s *)" % (pname, err)); lines.append("")
    # the function table for calls between translated functions (by C name)
    lines.append("Definition prog_env (g : string) : option func :=")
    for fn, pname in translated:
        if fn in CALLABLE and (pname == "prog_" + fn or pname == "prog_sbdf_swap_le"):     # sbdf_swap: the default configuration's
            lines.append('  if String.eqb g "%s" then Some %s else' % (fn, pname))
    lines.append("  None.")
    lines.append("")
    text = "\n".join(lines) + "\n"
    old = open(OUT).read() if os.path.exists(OUT) else None
    if old != text:
        os.makedirs(os.path.dirname(OUT), exist_ok=True); open(OUT, "w").write(text)
        print("c2imp: rewrote", os.path.normpath(OUT))
    for n in notes:
        print("c2imp: NOT TRANSLATED", n)


if __name__ == "__main__":
    main()
