#!/usr/bin/env python3
"""c2imp.py - translates whole C functions of /repo/src into the deep-embedded mini-C of coq/Imp.v
(coq/Gen/Prog.v) on every run, from clang 14's JSON AST.  Syntax-directed: one IR constructor per
AST node, no simplification.  Anything outside the subset makes the translation of that function
fail loudly (the function is omitted, and the theorems of coq/ImpFacts.v that mention it no longer
compile).

Subset: locals and parameters of integer / char* type; integer and character literals; *p and
*p++ as rvalue, *p++ = e and *p = e as store; x = e, x op= e, ++x, x++ on locals; + - * << >> & | ^
< <= > >= == != && || ! ?: ; integral casts to int / unsigned char / char; if, while, for (without
continue), return, blocks, declarations with or without initialiser.
Refused: anything else, and any binary operator / store whose two operands both touch a variable
that one of them modifies (the result would depend on the evaluation order)."""
import json, os, subprocess, sys

REPO = os.environ.get("SBDF_REPO", "/repo")
V = os.path.join(os.path.dirname(os.path.abspath(__file__)), "..")
OUT = os.environ.get("C2IMP_OUT") or os.path.join(V, "coq", "Gen", "Prog.v")

WANTED = [("sbdfstring.c", "sbdf_convert_utf8_to_iso88591"), ("sbdfstring.c", "sbdf_convert_iso88591_to_utf8")]


class Untranslatable(Exception):
    pass


def ast_of(path):
    p = subprocess.run(["clang", "-fsyntax-only", "-w", "-I", REPO + "/include", "-I", REPO + "/src",
                        "-Xclang", "-ast-dump=json", path], capture_output=True, text=True)
    if p.returncode != 0:
        sys.stderr.write(p.stderr[-2000:]); sys.exit(2)
    return json.loads(p.stdout)


BIN = {"+": "Add", "-": "Sub", "*": "Mul", "<<": "Shl", ">>": "Shr", "&": "BAnd", "|": "BOr", "^": "BXor",
       "<": "Lt", "<=": "Le", ">": "Gt", ">=": "Ge", "==": "Eq", "!=": "Ne"}
CTY = {"int": "TInt", "unsigned char": "TUChar", "char": "TChar", "const char": "TChar", "const unsigned char": "TUChar", "const int": "TInt"}


def qt(n):
    return n.get("type", {}).get("qualType", "")


def is_intlike(t):
    return t in CTY


def is_charptr(t):
    return t.replace("const ", "").replace(" ", "") in ("char*", "unsignedchar*")


def zlit(v):
    return "(%d)" % v


def var_of(n, scope):
    """name of the local/parameter an lvalue DeclRefExpr refers to"""
    n = unparen(n)
    if n.get("kind") == "DeclRefExpr" and n.get("referencedDecl", {}).get("kind") in ("VarDecl", "ParmVarDecl"):
        nm = n["referencedDecl"]["name"]
        if nm in scope: return nm
        raise Untranslatable("reference to non-local " + nm)
    return None


def unparen(n):
    while n.get("kind") in ("ParenExpr", "ConstantExpr") and n.get("inner"):
        n = n["inner"][0]
    return n


class Fx:
    """variables read / written by an expression (for the evaluation-order check)"""
    def __init__(self): self.r = set(); self.w = set(); self.io = False


def fx_join(a, b):
    c = Fx(); c.r = a.r | b.r; c.w = a.w | b.w; c.io = a.io or b.io; return c


def order_ok(a, b):
    return not (a.w & (b.r | b.w)) and not (b.w & (a.r | a.w)) and not (a.io and b.io)


def expr(n, scope):
    """-> (Gallina term of type expr, Fx)"""
    n = unparen(n)
    k = n.get("kind")
    if k == "IntegerLiteral":
        return "(EConst %s)" % zlit(int(n["value"])), Fx()
    if k == "CharacterLiteral":
        return "(EConst %s)" % zlit(int(n["value"])), Fx()
    if k == "ImplicitCastExpr" or k == "CStyleCastExpr":
        ck = n.get("castKind")
        sub = n["inner"][0]
        if ck == "LValueToRValue":
            s = unparen(sub)
            v = var_of(s, scope)
            if v is not None:
                f = Fx(); f.r.add(v); return '(EVar "%s")' % v, f
            if s.get("kind") == "UnaryOperator" and s.get("opcode") == "*":
                p, f = expr(s["inner"][0], scope)
                return "(EDeref %s)" % p, f
            raise Untranslatable("rvalue of " + str(s.get("kind")))
        if ck == "IntegralCast":
            t = qt(n)
            if t not in CTY: raise Untranslatable("cast to " + t)
            e, f = expr(sub, scope)
            return "(ECast %s %s)" % (CTY[t], e), f
        if ck == "NoOp":
            return expr(sub, scope)
        raise Untranslatable("cast kind " + str(ck))
    if k == "UnaryOperator":
        op = n.get("opcode")
        sub = n["inner"][0]
        if op in ("++",):
            v = var_of(sub, scope)
            if v is None: raise Untranslatable("++ on a non-variable")
            f = Fx(); f.r.add(v); f.w.add(v)
            return '(%s "%s")' % ("EPostInc" if n.get("isPostfix") else "EPreInc", v), f
        if op == "!":
            e, f = expr(sub, scope); return "(ELNot %s)" % e, f
        if op == "-":
            e, f = expr(sub, scope); return "(EBin Sub (EConst 0) %s)" % e, f
        if op == "+":
            return expr(sub, scope)
        raise Untranslatable("unary " + str(op))
    if k == "BinaryOperator":
        op = n.get("opcode")
        a, b = n["inner"]
        if op == "=":
            la = unparen(a)
            v = var_of(la, scope)
            if v is not None:
                e, f = expr(b, scope)
                if v in f.w: raise Untranslatable("assignment to a variable its right side modifies")
                f.w.add(v)
                return '(EAssign "%s" %s)' % (v, e), f
            if la.get("kind") == "UnaryOperator" and la.get("opcode") == "*":
                p, fp = expr(la["inner"][0], scope)
                e, fe = expr(b, scope)
                if not order_ok(fp, fe): raise Untranslatable("store whose operands depend on the evaluation order")
                f = fx_join(fp, fe); f.io = True
                return "(EStore %s %s)" % (p, e), f
            raise Untranslatable("assignment to " + str(la.get("kind")))
        if op in ("&&", "||"):
            ea, fa = expr(a, scope); eb, fb = expr(b, scope)      # sequenced: no order check
            return "(%s %s %s)" % ("ELAnd" if op == "&&" else "ELOr", ea, eb), fx_join(fa, fb)
        if op == ",":
            raise Untranslatable("comma operator")
        if op in BIN:
            if not (is_intlike(qt(unparen(a))) or qt(a) in CTY) and False: pass
            ea, fa = expr(a, scope); eb, fb = expr(b, scope)
            if not order_ok(fa, fb): raise Untranslatable("operands of %s depend on the evaluation order" % op)
            if not (qt(a) in CTY and qt(b) in CTY): raise Untranslatable("operator %s on %s, %s" % (op, qt(a), qt(b)))
            return "(EBin %s %s %s)" % (BIN[op], ea, eb), fx_join(fa, fb)
        raise Untranslatable("operator " + str(op))
    if k == "CompoundAssignOperator":
        op = n.get("opcode")[:-1]
        a, b = n["inner"]
        v = var_of(a, scope)
        if v is None or op not in BIN: raise Untranslatable("compound assignment " + str(n.get("opcode")))
        if qt(a) != "int" or n.get("computeResultType", {}).get("qualType", "int") != "int": raise Untranslatable("compound assignment on " + qt(a))
        e, f = expr(b, scope)
        if v in f.w: raise Untranslatable("compound assignment to a variable its right side modifies")
        f.r.add(v); f.w.add(v)
        return '(EAssign "%s" (EBin %s (EVar "%s") %s))' % (v, BIN[op], v, e), f
    if k == "ConditionalOperator":
        c, fc = expr(n["inner"][0], scope); a, fa = expr(n["inner"][1], scope); b, fb = expr(n["inner"][2], scope)
        return "(ECond %s %s %s)" % (c, a, b), fx_join(fc, fx_join(fa, fb))
    if k == "DeclRefExpr":
        raise Untranslatable("lvalue used as a value without conversion")
    raise Untranslatable("expression " + str(k))


def has_continue_or_break(n):
    if n.get("kind") in ("ContinueStmt", "BreakStmt", "GotoStmt", "SwitchStmt", "DoStmt"): return True
    return any(has_continue_or_break(c) for c in n.get("inner", []) if isinstance(c, dict))


def seq(parts):
    parts = [p for p in parts]
    if not parts: return "SSkip"
    out = parts[-1]
    for p in reversed(parts[:-1]):
        out = "(SSeq %s %s)" % (p, out)
    return out


def stmt(n, scope, declared):
    k = n.get("kind")
    if k == "CompoundStmt":
        return seq([stmt(c, scope, declared) for c in n.get("inner", [])])
    if k == "NullStmt":
        return "SSkip"
    if k == "DeclStmt":
        out = []
        for d in n.get("inner", []):
            if d.get("kind") != "VarDecl": raise Untranslatable("declaration of " + str(d.get("kind")))
            nm, t = d["name"], qt(d)
            if d.get("storageClass") in ("static", "extern"): raise Untranslatable("static local " + nm)
            if not (t in CTY or is_charptr(t)): raise Untranslatable("local %s of type %s" % (nm, t))
            if nm in declared: raise Untranslatable("second declaration of " + nm)
            declared.add(nm)
            if d.get("inner"):
                e, _ = expr(d["inner"][0], scope)
                out.append('(SDecl "%s" (Some %s))' % (nm, e))
            else:
                out.append('(SDecl "%s" None)' % nm)
            scope.add(nm)
        return seq(out)
    if k == "IfStmt":
        inner = n["inner"]
        c, _ = expr(inner[0], scope)
        a = stmt(inner[1], scope, declared)
        b = stmt(inner[2], scope, declared) if len(inner) > 2 else "SSkip"
        return "(SIf %s %s %s)" % (c, a, b)
    if k == "WhileStmt":
        if has_continue_or_break(n["inner"][1]): raise Untranslatable("break/continue in a loop")
        c, _ = expr(n["inner"][0], scope)
        return "(SWhile %s %s)" % (c, stmt(n["inner"][1], scope, declared))
    if k == "ForStmt":
        init, _cv, cnd, inc, body = n["inner"]
        if has_continue_or_break(body): raise Untranslatable("break/continue in a loop")
        parts = []
        if init and init.get("kind"): parts.append(stmt(init, scope, declared) if init["kind"] in ("DeclStmt",) else "(SExpr %s)" % expr(init, scope)[0])
        c = expr(cnd, scope)[0] if cnd and cnd.get("kind") else "(EConst 1)"
        b = stmt(body, scope, declared)
        if inc and inc.get("kind"): b = "(SSeq %s (SExpr %s))" % (b, expr(inc, scope)[0])
        parts.append("(SWhile %s %s)" % (c, b))
        return seq(parts)
    if k == "ReturnStmt":
        if not n.get("inner"): raise Untranslatable("return without a value")
        return "(SReturn %s)" % expr(n["inner"][0], scope)[0]
    # an expression statement
    e, _ = expr(n, scope)
    return "(SExpr %s)" % e


def main():
    lines = ["(* GENERATED by tools/c2imp.py from /repo/src (clang AST) - do not edit *)",
             "From Sbdf Require Import Imp.", "Local Open Scope Z_scope.", "Local Open Scope string_scope.", ""]
    cache = {}
    notes = []
    for fname, fn in WANTED:
        path = os.path.join(REPO, "src", fname)
        if path not in cache: cache[path] = ast_of(path)
        decl = None
        for n in cache[path]["inner"]:
            if n.get("kind") == "FunctionDecl" and n.get("name") == fn and any(c.get("kind") == "CompoundStmt" for c in n.get("inner", [])):
                decl = n
        try:
            if decl is None: raise Untranslatable("definition not found")
            params = []
            for c in decl["inner"]:
                if c.get("kind") == "ParmVarDecl":
                    t = qt(c)
                    if not (t in CTY or is_charptr(t)): raise Untranslatable("parameter of type " + t)
                    params.append(c["name"])
            if len(set(params)) != len(params): raise Untranslatable("duplicate parameter names")
            body = [c for c in decl["inner"] if c.get("kind") == "CompoundStmt"][0]
            scope = set(params); declared = set(params)
            b = stmt(body, scope, declared)
            locs = [x for x in sorted(declared) if x not in params]
            lines.append("Definition prog_%s : func :=\n  {| fparams := [%s];\n     flocals := [%s];\n     fbody := %s |}."
                         % (fn, "; ".join('"%s"' % p for p in params), "; ".join('"%s"' % p for p in locs), b))
            lines.append("")
        except Untranslatable as ex:
            notes.append("%s: %s" % (fn, ex))
            lines.append("(* %s could not be translated: %s *)" % (fn, ex)); lines.append("")
    text = "\n".join(lines) + "\n"
    old = open(OUT).read() if os.path.exists(OUT) else None
    if old != text:
        os.makedirs(os.path.dirname(OUT), exist_ok=True); open(OUT, "w").write(text)
        print("c2imp: rewrote", os.path.normpath(OUT))
    for n in notes:
        print("c2imp: NOT TRANSLATED", n)


if __name__ == "__main__":
    main()
