/* threads.c — C18: k threads run independent generated workloads (build, encode, write, read,
   decode, destroy) on their own objects and streams, under ThreadSanitizer; afterwards the same
   workloads run sequentially and the per-workload digests are compared.  The threads run FIRST,
   so that lazily initialised global state (if any were introduced) is first touched concurrently.
   usage: threads <nthreads> <workloads per thread> <seed> */
#define _GNU_SOURCE
#include <stdio.h>
#include <stdlib.h>
#include <string.h>
#include <stdint.h>
#include <pthread.h>
#include <unistd.h>
#include <sys/mman.h>
#include "all.h"
#include "all_io.h"
#include "internals.h"

void* vf_malloc(size_t n) { return malloc(n); }
void* vf_calloc(size_t a, size_t b) { return calloc(a, b); }
void* vf_realloc(void* p, size_t n) { return realloc(p, n); }
void vf_free(void* p) { free(p); }

typedef struct { uint64_t s; } rng_t;
static uint32_t rnd(rng_t* r) { r->s = r->s * 6364136223846793005ULL + 1442695040888963407ULL; return (uint32_t)(r->s >> 33); }

static uint64_t fnv(uint64_t h, const void* p, size_t n) { const unsigned char* b = p; size_t i; for (i = 0; i < n; ++i) { h ^= b[i]; h *= 1099511628211ULL; } return h; }

static const int TYPES[] = { SBDF_BOOLTYPEID, SBDF_INTTYPEID, SBDF_LONGTYPEID, SBDF_FLOATTYPEID, SBDF_DOUBLETYPEID, SBDF_DATETIMETYPEID,
	SBDF_DATETYPEID, SBDF_TIMETYPEID, SBDF_TIMESPANTYPEID, SBDF_STRINGTYPEID, SBDF_BINARYTYPEID, SBDF_DECIMALTYPEID };

static sbdf_object* make_obj(rng_t* r, int ty, int n)
{
	sbdf_valuetype vt; sbdf_object* o = 0; int i; vt.id = ty;
	if (ty == SBDF_STRINGTYPEID || ty == SBDF_BINARYTYPEID)
	{
		char** d = malloc(sizeof(char*) * (size_t)(n + 1)); int* l = malloc(sizeof(int) * (size_t)(n + 1)); char pool[3][8];
		for (i = 0; i < 3; ++i) { int j; for (j = 0; j < 8; ++j) pool[i][j] = (char)('a' + rnd(r) % 3); }
		for (i = 0; i < n; ++i) { int k = (int)(rnd(r) % 3); d[i] = pool[k]; l[i] = (int)(rnd(r) % 3) + k; }
		sbdf_obj_create_arr(vt, n, d, l, &o);
		free(d); free(l);
	}
	else
	{
		int sz = sbdf_get_unpacked_size(vt); unsigned char* d = calloc((size_t)n + 1, (size_t)sz);
		for (i = 0; i < n; ++i) { if (rnd(r) % 3) d[(size_t)i * sz + (rnd(r) % sz)] = (unsigned char)(rnd(r) % 3); else if (i) memcpy(d + (size_t)i * sz, d + (size_t)(i - 1) * sz, (size_t)sz); }
		sbdf_obj_create_arr(vt, n, d, 0, &o);
		free(d);
	}
	return o;
}

static uint64_t hash_obj(uint64_t h, const sbdf_object* o)
{
	int i;
	h = fnv(h, &o->type.id, sizeof(int)); h = fnv(h, &o->count, sizeof(int));
	if (o->type.id == SBDF_STRINGTYPEID || o->type.id == SBDF_BINARYTYPEID)
		for (i = 0; i < o->count; ++i) { void* e = ((void**)o->data)[i]; h = fnv(h, e, (size_t)sbdf_get_array_length(e)); }
	else { sbdf_valuetype vt = o->type; h = fnv(h, o->data, (size_t)sbdf_get_unpacked_size(vt) * (size_t)o->count); }
	return h;
}

static uint64_t workload(uint64_t seed)
{
	rng_t r; uint64_t h = 1469598103934665603ULL; int ncols, i, rows, nsl, s;
	sbdf_metadata_head* tmd; sbdf_tablemetadata* tm; char* buf = 0; size_t len = 0; FILE* f; int types[6];
	sbdf_valuearray* vas[64]; int nva = 0; sbdf_columnslice* css[32]; int ncs = 0; sbdf_tableslice* tss[4];
	r.s = seed * 2654435761u + 12345;
	ncols = 1 + (int)(rnd(&r) % 5); rows = (int)(rnd(&r) % 40); if (rnd(&r) % 4 == 0) rows = 100 + (int)(rnd(&r) % 300); nsl = 1 + (int)(rnd(&r) % 2);
	sbdf_md_create(&tmd);
	sbdf_md_add_int("answer", (int)rnd(&r), 42, tmd);
	sbdf_md_add_str("title", "t", rnd(&r) % 2 ? "d" : 0, tmd);
	{ sbdf_object* o = make_obj(&r, SBDF_DOUBLETYPEID, 1); sbdf_md_add("pi", o, 0, tmd); sbdf_obj_destroy(o); }
	{ sbdf_object* o = make_obj(&r, SBDF_LONGTYPEID, 1); sbdf_md_add("big", o, o, tmd); sbdf_obj_destroy(o); }
	sbdf_tm_create(tmd, &tm);
	for (i = 0; i < ncols; ++i)
	{
		sbdf_metadata_head* cm; sbdf_valuetype vt; char name[16];
		types[i] = TYPES[rnd(&r) % 12]; vt.id = types[i]; snprintf(name, sizeof name, "c%d", i);
		sbdf_md_create(&cm); sbdf_cm_set_values(name, vt, cm);
		if (rnd(&r) % 2) sbdf_md_add_int("scale", (int)(rnd(&r) % 5), 1, cm);
		sbdf_tm_add(cm, tm); sbdf_md_destroy(cm);
	}
	f = open_memstream(&buf, &len);
	sbdf_fh_write_cur(f); sbdf_tm_write(f, tm);
	for (s = 0; s < nsl; ++s)
	{
		sbdf_ts_create(tm, &tss[s]);
		for (i = 0; i < ncols; ++i)
		{
			sbdf_object* o = make_obj(&r, types[i], rows); sbdf_object* inv = make_obj(&r, SBDF_BOOLTYPEID, rows);
			sbdf_valuearray *v = 0, *p = 0; sbdf_columnslice* cs = 0; int enc = 1 + (int)(rnd(&r) % 2);
			if (types[i] == SBDF_BOOLTYPEID && rnd(&r) % 2) sbdf_va_create_dflt(o, &v); else sbdf_va_create(enc, o, &v);
			sbdf_va_create_dflt(inv, &p);
			sbdf_cs_create(&cs, v); sbdf_cs_add_property(cs, SBDF_ISINVALID_VALUEPROPERTY, p);
			sbdf_ts_add(cs, tss[s]);
			vas[nva++] = v; vas[nva++] = p; css[ncs++] = cs;
			h = hash_obj(h, o);
			sbdf_obj_destroy(o); sbdf_obj_destroy(inv);
		}
		sbdf_ts_write(f, tss[s]);
	}
	sbdf_ts_write_end(f);
	fclose(f);
	h = fnv(h, buf, len);
	for (s = 0; s < nsl; ++s) sbdf_ts_destroy(tss[s]);
	for (i = 0; i < ncs; ++i) sbdf_cs_destroy(css[i]);
	for (i = 0; i < nva; ++i) sbdf_va_destroy(vas[i]);
	sbdf_tm_destroy(tm); sbdf_md_destroy(tmd);
	/* read back, decode, convert */
	{
		FILE* in = fmemopen(buf, len, "rb"); int ma, mi, e; sbdf_tablemetadata* rt = 0;
		sbdf_fh_read(in, &ma, &mi); sbdf_tm_read(in, &rt);
		for (;;)
		{
			sbdf_tableslice* ts = 0; e = sbdf_ts_read(in, rt, 0, &ts);
			if (e) { h = fnv(h, &e, sizeof e); break; }
			for (i = 0; i < ts->no_columns; ++i)
			{
				sbdf_object* o = 0; sbdf_valuearray* p = 0;
				if (!sbdf_va_get_values(ts->columns[i]->values, &o)) { h = hash_obj(h, o); sbdf_obj_destroy(o); }
				if (!sbdf_cs_get_property(ts->columns[i], SBDF_ISINVALID_VALUEPROPERTY, &p) && !sbdf_va_get_values(p, &o)) { h = hash_obj(h, o); sbdf_obj_destroy(o); }
			}
			sbdf_ts_destroy(ts);
		}
		{ sbdf_object* o = 0; if (!sbdf_md_get("pi", rt->table_metadata, &o)) { h = hash_obj(h, o); sbdf_obj_destroy(o); } }
		sbdf_tm_destroy(rt); fclose(in);
	}
	{ char out[64]; int n = sbdf_convert_iso88591_to_utf8("caf\xe9 \xff", out); h = fnv(h, out, (size_t)n); n = sbdf_convert_utf8_to_iso88591(out, out + 32); h = fnv(h, out + 32, (size_t)n); }
	free(buf);
	return h;
}

typedef struct { int id, n; uint64_t seed; uint64_t* out; } targ;
static pthread_barrier_t bar;
static void* thread_main(void* a)
{
	targ* t = a; int i;
	pthread_barrier_wait(&bar);
	for (i = 0; i < t->n; ++i) t->out[i] = workload(t->seed + (uint64_t)t->id * 1000 + (uint64_t)i);
	return 0;
}

int main(int argc, char** argv)
{
	int k = argc > 1 ? atoi(argv[1]) : 8, n = argc > 2 ? atoi(argv[2]) : 20, i, j, bad = 0;
	uint64_t seed = argc > 3 ? strtoull(argv[3], 0, 10) : 1;
	pthread_t* th = calloc((size_t)k, sizeof *th); targ* ta = calloc((size_t)k, sizeof *ta);
	pthread_barrier_init(&bar, 0, (unsigned)k);
	for (i = 0; i < k; ++i) { ta[i].id = i; ta[i].n = n; ta[i].seed = seed; ta[i].out = calloc((size_t)n, sizeof(uint64_t)); pthread_create(&th[i], 0, thread_main, &ta[i]); }
	for (i = 0; i < k; ++i) pthread_join(th[i], 0);
	for (i = 0; i < k; ++i) for (j = 0; j < n; ++j)
	{
		uint64_t want = workload(seed + (uint64_t)i * 1000 + (uint64_t)j);
		if (want != ta[i].out[j]) { printf("MISMATCH thread=%d workload=%d seed=%llu concurrent=%016llx sequential=%016llx\n", i, j, (unsigned long long)(seed + (uint64_t)i * 1000 + (uint64_t)j), (unsigned long long)ta[i].out[j], (unsigned long long)want); ++bad; }
	}
	printf("threads=%d workloads=%d mismatches=%d\n", k, k * n, bad);
	return bad ? 1 : 0;
}
