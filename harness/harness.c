/* harness.c — executes case scripts against the real library (built from /repo's working tree
   with ASan+UBSan and the allocator redirected to vf_*), printing one canonical observation
   line per script line.  The extracted Coq model (model/driver.ml) executes the same scripts;
   lines starting with '#' are C-only observations (allocator ledger, sanitizer verdicts).

   usage: harness <scriptfile> [-nofork]
   A script is a sequence of cases: "case <id>" ... ; every case runs in a forked child. */
#define _GNU_SOURCE
#include <stdio.h>
#include <stdlib.h>
#include <string.h>
#include <stdint.h>
#include <unistd.h>
#include <errno.h>
#include <sys/mman.h>
#include <sys/wait.h>
#include "all.h"
#include "all_io.h"
#include "internals.h"
#include "columnmetadata.h"
#include "sbdfstring.h"
#include "bytearray.h"

/* ------------------------------------------------------------------ allocator ledger */
static long vf_live = 0;          /* blocks currently allocated by the library */
static long vf_count = 0;         /* allocation attempts so far */
static long vf_fail_at = -1;      /* attempt index that fails (one shot) */
static size_t vf_cap = (size_t)1 << 26;
static int vf_refused = 0;        /* an attempt above the cap was refused */

static int vf_pause = 0;          /* observation code (dumps) neither counts nor fails */
static int vf_should_fail(size_t n)
{
	long k;
	if (vf_pause) return 0;
	k = vf_count++;
	if (k == vf_fail_at) return 1;
	if (n > vf_cap) { vf_refused = 1; return 1; }
	return 0;
}
void* vf_malloc(size_t n) { void* p; if (vf_should_fail(n)) return 0; p = malloc(n); if (p) ++vf_live; return p; }
void* vf_calloc(size_t a, size_t b)
{
	void* p;
	if (b && a > (size_t)-1 / b) { ++vf_count; vf_refused = 1; return 0; }
	if (vf_should_fail(a * b)) return 0;
	p = calloc(a, b); if (p) ++vf_live; return p;
}
void* vf_realloc(void* q, size_t n)
{
	void* p;
	if (vf_should_fail(n)) return 0;
	p = realloc(q, n); if (p && !q) ++vf_live; return p;
}
void vf_free(void* p) { if (p) --vf_live; free(p); }

/* every observation line is assembled in a memory stream first, so that the interpreter can look
   at the status it is about to print (strict mode: stop the case at the first failing call) */
static FILE* LF;
#define printf(...) fprintf(LF, __VA_ARGS__)
#define putchar(c) fputc((c), LF)

/* ------------------------------------------------------------------ small utilities */
typedef struct { unsigned char* p; size_t n; } bytes;

static int hexval(int c) { return c <= '9' ? c - '0' : (c | 32) - 'a' + 10; }
static bytes unhex(const char* s)
{
	bytes b; size_t i, l;
	if (!strcmp(s, "-") || !strcmp(s, "~")) { b.n = 0; b.p = malloc(1); b.p[0] = 0; return b; }
	l = strlen(s) / 2; b.n = l; b.p = malloc(l + 1);
	for (i = 0; i < l; ++i) b.p[i] = (unsigned char)(hexval(s[2 * i]) * 16 + hexval(s[2 * i + 1]));
	b.p[l] = 0;
	return b;
}
static void puthex(const unsigned char* p, size_t n)
{
	size_t i;
	if (!n) { putchar('-'); return; }
	for (i = 0; i < n; ++i) printf("%02x", p[i]);
}

#define MAXH 4096
enum { K_OBJ, K_VA, K_MD, K_TM, K_CS, K_TS, K_OUT, K_IN, K_KINDS };
static void* H[K_KINDS][MAXH];
static char OWN[K_KINDS][MAXH];    /* 1 = the script owns it (destroy at end), 0 = borrowed alias */

typedef struct { unsigned char* buf; size_t n, capn; long budget; FILE* f; } ostream;
typedef struct { FILE* f; size_t len; unsigned char* pipebuf; size_t pipepos; int is_pipe; } istream;

static ssize_t out_write(void* c, const char* b, size_t n)
{
	ostream* o = c; size_t k = n;
	if (o->budget >= 0 && (size_t)o->budget < k) k = (size_t)o->budget;
	if (o->n + k > o->capn) { o->capn = (o->n + k) * 2 + 64; o->buf = realloc(o->buf, o->capn); }
	if (k) { memcpy(o->buf + o->n, b, k); o->n += k; }
	if (o->budget >= 0) o->budget -= (long)k;
	if (k < n) { errno = ENOSPC; return k ? (ssize_t)k : 0; }
	return (ssize_t)k;
}
static ostream* out_new(long budget)
{
	cookie_io_functions_t io = { 0, out_write, 0, 0 };
	ostream* o = calloc(1, sizeof *o);
	o->budget = budget;
	o->f = fopencookie(o, "w", io);
	setvbuf(o->f, 0, _IONBF, 0);
	return o;
}
static istream* in_new(const unsigned char* p, size_t n)
{
	istream* s = calloc(1, sizeof *s);
	int fd = memfd_create("in", 0);
	size_t off = 0;
	while (off < n) { ssize_t w = write(fd, p + off, n - off); if (w <= 0) abort(); off += (size_t)w; }
	lseek(fd, 0, SEEK_SET);
	s->f = fdopen(fd, "rb");
	s->len = n;
	return s;
}

/* a non-seekable input (a pipe, a socket): only read works; fseek and ftell fail.  Unbuffered, so
   the number of bytes handed out is the position of the reader. */
static ssize_t pipe_read(void* c, char* b, size_t n)
{
	istream* s = c; size_t k = s->len - s->pipepos;
	if (k > n) k = n;
	if (k) { memcpy(b, s->pipebuf + s->pipepos, k); s->pipepos += k; }
	return (ssize_t)k;
}
static istream* in_pipe_new(const unsigned char* p, size_t n)
{
	cookie_io_functions_t io = { pipe_read, 0, 0, 0 };
	istream* s = calloc(1, sizeof *s);
	s->pipebuf = malloc(n + 1); memcpy(s->pipebuf, p, n); s->len = n; s->is_pipe = 1;
	s->f = fopencookie(s, "r", io);
	setvbuf(s->f, 0, _IONBF, 0);
	return s;
}

/* ------------------------------------------------------------------ canonical dumps */
static void dump_obj(const sbdf_object* o)
{
	int i, sz;
	if (!o) { printf("null"); return; }
	printf("{%d %d", o->type.id, o->count);
	if (o->type.id == SBDF_STRINGTYPEID || o->type.id == SBDF_BINARYTYPEID)
	{
		for (i = 0; i < o->count; ++i)
		{
			unsigned char* e = ((unsigned char**)o->data)[i];
			putchar(' ');
			if (!e) printf("NULL");
			else puthex(e, (size_t)(o->type.id == SBDF_STRINGTYPEID ? sbdf_str_len((char*)e) : sbdf_ba_get_len(e)));
		}
	}
	else
	{
		sbdf_valuetype vt; vt.id = o->type.id;
		sz = sbdf_get_unpacked_size(vt);
		if (sz > 0) for (i = 0; i < o->count; ++i) { putchar(' '); puthex((unsigned char*)o->data + (size_t)i * sz, (size_t)sz); }
	}
	putchar('}');
}
static void dump_va(sbdf_valuearray* v)
{
	ostream* o; int e;
	if (!v) { printf("null"); return; }
	o = out_new(-1);
	e = sbdf_va_write(v, o->f);
	printf("<%d:", e); puthex(o->buf, o->n); putchar('>');
	fclose(o->f); free(o->buf); free(o);
}
static void dump_md(const sbdf_metadata_head* m)
{
	const sbdf_metadata* e;
	if (!m) { printf("null"); return; }
	printf("[mod=%d", m->modifiable ? 1 : 0);
	for (e = m->first; e; e = e->next)
	{
		printf(" ("); puthex((unsigned char*)e->name, (size_t)sbdf_str_len(e->name));
		putchar(' '); dump_obj(e->value); putchar(' '); dump_obj(e->default_value); putchar(')');
	}
	putchar(']');
}
static void dump_tm(const sbdf_tablemetadata* t)
{
	int i;
	if (!t) { printf("null"); return; }
	printf("TM "); dump_md(t->table_metadata); printf(" cols=%d", t->no_columns);
	for (i = 0; i < t->no_columns; ++i) { putchar(' '); dump_md(t->column_metadata[i]); }
}
static void dump_cs(const sbdf_columnslice* c)
{
	int i;
	if (!c) { printf("absent"); return; }
	printf("CS(own=%d ", c->owned ? 1 : 0); dump_va(c->values); printf(" props=%d", c->prop_cnt);
	for (i = 0; i < c->prop_cnt; ++i)
	{
		putchar(' '); puthex((unsigned char*)c->property_names[i], (size_t)sbdf_str_len(c->property_names[i]));
		putchar('='); dump_va(c->properties[i]);
	}
	putchar(')');
}
static void dump_ts(const sbdf_tableslice* t)
{
	int i;
	if (!t) { printf("null"); return; }
	printf("TS(own=%d cols=%d", t->owned ? 1 : 0, t->no_columns);
	for (i = 0; i < t->no_columns; ++i) { putchar(' '); dump_cs(t->columns[i]); }
	putchar(')');
}

/* decoded view: what sbdf_va_get_values / sbdf_va_row_cnt deliver for every array of a slice */
static void dec_va(sbdf_valuearray* v)
{
	sbdf_object* o = 0; int e;
	if (!v) { printf("null"); return; }
	e = sbdf_va_get_values(v, &o);
	printf("%d:%d:", sbdf_va_row_cnt(v), e);
	if (!e) { dump_obj(o); sbdf_obj_destroy(o); }
}
static void dec_cs(sbdf_columnslice* c)
{
	int i;
	if (!c) { printf("absent"); return; }
	printf("CSD(rows=%d ", sbdf_cs_row_cnt(c)); dec_va(c->values);
	for (i = 0; i < c->prop_cnt; ++i)
	{
		sbdf_valuearray* v = 0; int e = sbdf_cs_get_property(c, c->property_names[i], &v);
		putchar(' '); puthex((unsigned char*)c->property_names[i], (size_t)sbdf_str_len(c->property_names[i]));
		printf("=%d:", e); dec_va(e ? 0 : v);
	}
	putchar(')');
}
static void dec_ts(sbdf_tableslice* t)
{
	int i;
	if (!t) { printf("null"); return; }
	printf("TSD(");
	for (i = 0; i < t->no_columns; ++i) { if (i) putchar(' '); dec_cs(t->columns[i]); }
	putchar(')');
}

static int last_e = 0;     /* status of the last status-returning call (strict mode) */
static int strict = 0;

/* ------------------------------------------------------------------ the interpreter */
#define MAXTOK (1 << 20)
static char* tok[MAXTOK]; static int ntok;
static int lineno;

static int hid(int i) { int h = atoi(tok[i]); if (h < 0 || h >= MAXH) { fprintf(stderr, "bad handle line %d\n", lineno); exit(3); } return h; }
#define OBJ(i) ((sbdf_object*)H[K_OBJ][hid(i)])
#define VA(i)  ((sbdf_valuearray*)H[K_VA][hid(i)])
#define MD(i)  ((sbdf_metadata_head*)H[K_MD][hid(i)])
#define TM(i)  ((sbdf_tablemetadata*)H[K_TM][hid(i)])
#define CS(i)  ((sbdf_columnslice*)H[K_CS][hid(i)])
#define TS(i)  ((sbdf_tableslice*)H[K_TS][hid(i)])
#define OUT(i) ((ostream*)H[K_OUT][hid(i)])
#define IN(i)  ((istream*)H[K_IN][hid(i)])
static void set(int kind, int h, void* p, int own) { H[kind][h] = p; OWN[kind][h] = (char)own; }

static char* cname(int i)   /* a NUL-terminated C string from a hex token */
{
	bytes b = unhex(tok[i]); return (char*)b.p;
}
static long pos_of(istream* s) { long p = s->is_pipe ? (long)s->pipepos : ftell(s->f); if (p < 0) return -1; return (size_t)p > s->len ? (long)s->len : p; }

#define SENTINEL ((void*)(uintptr_t)0x5e5e5e5e5e5e5e5eULL)
static const char* outstate(void* p) { return p == SENTINEL ? "unset" : p ? "set" : "null"; }

static int mk_obj(int ty, int n, int first, int lengths_given, sbdf_object** out)
{
	sbdf_valuetype vt; int e, i; vt.id = ty;
	*out = SENTINEL;
	if (ty == SBDF_STRINGTYPEID || ty == SBDF_BINARYTYPEID)
	{
		char** data = malloc(sizeof(char*) * (size_t)(n + 1)); int* lens = malloc(sizeof(int) * (size_t)(n + 1));
		for (i = 0; i < n; ++i)
		{
			bytes b;
			if (!strcmp(tok[first + i], "~")) { data[i] = 0; lens[i] = 0; continue; }     /* an element that is not there */
			b = unhex(tok[first + i]); data[i] = (char*)b.p; lens[i] = (int)b.n;
			if (lengths_given)
			{
				/* the stated length is all the callee may rely on: what follows is not a terminator */
				data[i] = malloc(b.n + 4); memcpy(data[i], b.p, b.n); memcpy(data[i] + b.n, "ZZZ", 4); free(b.p);
			}
		}
		e = sbdf_obj_create_arr(vt, n, data, lengths_given ? lens : 0, out);
		for (i = 0; i < n; ++i) free(data[i]);
		free(data); free(lens);
	}
	else
	{
		size_t total = 0, off = 0; unsigned char* data;
		for (i = 0; i < n; ++i) total += strlen(tok[first + i]) / 2;
		data = malloc(total + 1);
		for (i = 0; i < n; ++i) { bytes b = unhex(tok[first + i]); memcpy(data + off, b.p, b.n); off += b.n; free(b.p); }
		e = sbdf_obj_create_arr(vt, n, data, 0, out);
		free(data);
	}
	return e;
}

static void subset_of(const char* t, int n, char** out)
{
	int i; size_t l = strlen(t);
	if (!strcmp(t, "*")) { *out = 0; return; }
	*out = calloc((size_t)n + 1, 1);
	for (i = 0; i < n && (size_t)i < l; ++i) (*out)[i] = (char)(t[i] != '0');
}

static void run_session(istream* in, const char* mode);

static void run_line(void)
{
	const char* op = tok[0];
	int e = 0;
	printf("%d %s ", lineno, op);
	if (!strcmp(op, "strict")) { strict = 1; printf("0\n"); return; }
	if (!strcmp(op, "epilogue")) { strict = 0; printf("0\n"); return; }
	{ size_t ol = strlen(op); vf_pause = (ol > 4 && !strcmp(op + ol - 4, "dump")) || !strcmp(op, "tsdec") || !strcmp(op, "csdec") || !strcmp(op, "bytes"); }
	if (!strcmp(op, "session")) { run_session(IN(1), ntok > 2 ? tok[2] : "*"); putchar('\n'); return; }
	if (!strcmp(op, "tsdec")) { dec_ts(TS(1)); putchar('\n'); return; }
	if (!strcmp(op, "csdec")) { dec_cs(CS(1)); putchar('\n'); return; }
	if (!strcmp(op, "obj") || !strcmp(op, "objs"))
	{
		sbdf_object* o; e = mk_obj(atoi(tok[2]), atoi(tok[3]), 4, !strcmp(op, "obj"), &o);
		printf("%d %s", e, outstate(o)); set(K_OBJ, hid(1), (e == 0 && o != SENTINEL) ? o : 0, 1);
	}
	else if (!strcmp(op, "ocopy")) { sbdf_object* o = SENTINEL; e = sbdf_obj_copy(OBJ(2), &o); printf("%d", e); set(K_OBJ, hid(1), e ? 0 : o, 1); }
	else if (!strcmp(op, "oeq")) { int r = sbdf_obj_eq(OBJ(1), OBJ(2)); printf("%d", r == 1 ? 1 : r == 0 ? 0 : r); }
	else if (!strcmp(op, "odump")) dump_obj(OBJ(1));
	else if (!strcmp(op, "odel")) { sbdf_obj_destroy(OBJ(1)); set(K_OBJ, hid(1), 0, 0); printf("0"); }
	else if (!strcmp(op, "scribble"))
	{   /* overwrite the bytes of every element of an object the script owns (inputs after construction, results after get) */
		sbdf_object* o = OBJ(1); int i;
		if (o)
		{
			if (o->type.id == SBDF_STRINGTYPEID || o->type.id == SBDF_BINARYTYPEID)
				for (i = 0; i < o->count; ++i) { unsigned char* p = ((unsigned char**)o->data)[i]; int l = o->type.id == SBDF_STRINGTYPEID ? sbdf_str_len((char*)p) : sbdf_ba_get_len(p); memset(p, 0x5a, (size_t)l); }
			else { sbdf_valuetype vt; int sz; vt.id = o->type.id; sz = sbdf_get_unpacked_size(vt); if (sz > 0) memset(o->data, 0x5a, (size_t)sz * (size_t)o->count); }
		}
		printf("0");
	}
	else if (!strcmp(op, "scmp") || !strcmp(op, "bcmp"))
	{
		bytes a = unhex(tok[1]), b = unhex(tok[2]); int r;
		if (!strcmp(op, "scmp")) { char* x = sbdf_str_create_len((char*)a.p, (int)a.n); char* y = sbdf_str_create_len((char*)b.p, (int)b.n); r = sbdf_str_cmp(x, y); sbdf_str_destroy(x); sbdf_str_destroy(y); }
		else { unsigned char* x = sbdf_ba_create(a.p, (int)a.n); unsigned char* y = sbdf_ba_create(b.p, (int)b.n); r = sbdf_ba_memcmp(x, y); sbdf_ba_destroy(x); sbdf_ba_destroy(y); }
		printf("%d", r < 0 ? -1 : r > 0 ? 1 : 0); free(a.p); free(b.p);
	}
	else if (!strcmp(op, "strrt") || !strcmp(op, "bart"))
	{   /* create_len / copy round trip: length, bytes, terminator */
		bytes a = unhex(tok[1]);
		if (!strcmp(op, "strrt"))
		{
			char* x = sbdf_str_create_len((char*)a.p, (int)a.n); char* y = sbdf_str_copy(x);
			memset(a.p, 0x5a, a.n);
			printf("%d ", sbdf_str_len(x)); puthex((unsigned char*)x, (size_t)sbdf_str_len(x)); printf(" %d ", x[sbdf_str_len(x)]);
			sbdf_str_destroy(x);
			printf("%d ", sbdf_str_len(y)); puthex((unsigned char*)y, (size_t)sbdf_str_len(y)); printf(" %d", y[sbdf_str_len(y)]);
			sbdf_str_destroy(y);
		}
		else
		{
			unsigned char* x = sbdf_ba_create(a.p, (int)a.n);
			memset(a.p, 0x5a, a.n);
			printf("%d ", sbdf_ba_get_len(x)); puthex(x, (size_t)sbdf_ba_get_len(x));
			sbdf_ba_destroy(x);
		}
		free(a.p);
	}
	else if (!strcmp(op, "va"))
	{
		sbdf_valuearray* v = SENTINEL; int k = atoi(tok[2]); sbdf_object* o = OBJ(3);
		if (k == -1) e = sbdf_va_create_dflt(o, &v);
		else if (k == -2) e = sbdf_va_create_plain(o, &v);
		else if (k == -3) e = sbdf_va_create_rle(o, &v);
		else if (k == -4) e = sbdf_va_create_bit(o, &v);
		else e = sbdf_va_create(k, o, &v);
		printf("%d", e);
		if (e) printf(" #out=%s", outstate(v));
		set(K_VA, hid(1), e ? 0 : v, 1);
	}
	else if (!strcmp(op, "vaget")) { sbdf_object* o = SENTINEL; e = sbdf_va_get_values(VA(2), &o); printf("%d", e); if (e) printf(" #out=%s", outstate(o)); set(K_OBJ, hid(1), e ? 0 : o, 1); }
	else if (!strcmp(op, "varows")) printf("%d", sbdf_va_row_cnt(VA(1)));
	else if (!strcmp(op, "vadump")) dump_va(VA(1));
	else if (!strcmp(op, "vadel")) { sbdf_va_destroy(VA(1)); set(K_VA, hid(1), 0, 0); printf("0"); }
	else if (!strcmp(op, "mdnew")) { sbdf_metadata_head* m = SENTINEL; e = sbdf_md_create(&m); printf("%d", e); set(K_MD, hid(1), e ? 0 : m, 1); }
	else if (!strcmp(op, "mdadd"))
	{
		char* n = cname(2); sbdf_object* d = strcmp(tok[4], "~") ? OBJ(4) : 0;
		e = sbdf_md_add(n, OBJ(3), d, MD(1)); printf("%d", e); free(n);
	}
	else if (!strcmp(op, "mdaddstr"))
	{
		char* n = cname(2); char* v = cname(3); char* d = strcmp(tok[4], "~") ? cname(4) : 0;
		e = sbdf_md_add_str(n, v, d, MD(1)); printf("%d", e); free(n); free(v); free(d);
	}
	else if (!strcmp(op, "mdaddint")) { char* n = cname(2); e = sbdf_md_add_int(n, atoi(tok[3]), atoi(tok[4]), MD(1)); printf("%d", e); free(n); }
	else if (!strcmp(op, "mdrm")) { char* n = cname(2); e = sbdf_md_remove(n, MD(1)); printf("%d", e); free(n); }
	else if (!strcmp(op, "mdget") || !strcmp(op, "mddflt"))
	{
		char* n = cname(3); sbdf_object* o = SENTINEL;
		e = !strcmp(op, "mdget") ? sbdf_md_get(n, MD(2), &o) : sbdf_md_get_dflt(n, MD(2), &o);
		printf("%d ", e);
		if (e) { printf("#out=%s", outstate(o)); o = 0; } else dump_obj(o);
		set(K_OBJ, hid(1), o, 1); free(n);
	}
	else if (!strcmp(op, "mdexists")) { char* n = cname(2); printf("%d", sbdf_md_exists(n, MD(1))); free(n); }
	else if (!strcmp(op, "mdcnt")) printf("%d", sbdf_md_cnt(MD(1)));
	else if (!strcmp(op, "mdcopy")) { e = sbdf_md_copy(MD(1), MD(2)); printf("%d", e); }
	else if (!strcmp(op, "mdfreeze")) { e = sbdf_md_set_immutable(MD(1)); printf("%d", e); }
	else if (!strcmp(op, "mddel")) { sbdf_md_destroy(MD(1)); set(K_MD, hid(1), 0, 0); printf("0"); }
	else if (!strcmp(op, "mddump")) dump_md(MD(1));
	else if (!strcmp(op, "cmset")) { char* n = cname(2); sbdf_valuetype vt; vt.id = atoi(tok[3]); e = sbdf_cm_set_values(n, vt, MD(1)); printf("%d", e); free(n); }
	else if (!strcmp(op, "cmname"))
	{
		char* s = SENTINEL; e = sbdf_cm_get_name(MD(1), &s); printf("%d ", e);
		if (!e) { puthex((unsigned char*)s, (size_t)sbdf_str_len(s)); sbdf_str_destroy(s); } else printf("#out=%s", outstate(s));
	}
	else if (!strcmp(op, "cmtype")) { sbdf_valuetype vt; vt.id = -77; e = sbdf_cm_get_type(MD(1), &vt); printf("%d", e); if (!e) printf(" %d", vt.id); }
	else if (!strcmp(op, "tmnew")) { sbdf_tablemetadata* t = SENTINEL; e = sbdf_tm_create(MD(2), &t); printf("%d", e); if (e) printf(" #out=%s", outstate(t)); set(K_TM, hid(1), e ? 0 : t, 1); }
	else if (!strcmp(op, "tmadd")) { e = sbdf_tm_add(MD(2), TM(1)); printf("%d", e); }
	else if (!strcmp(op, "tmdel")) { sbdf_tm_destroy(TM(1)); set(K_TM, hid(1), 0, 0); printf("0"); }
	else if (!strcmp(op, "tmdump")) dump_tm(TM(1));
	else if (!strcmp(op, "tmmd"))
	{   /* borrowed alias of the table-level (-1) or a column's metadata head */
		sbdf_tablemetadata* t = TM(2); int i = atoi(tok[3]);
		sbdf_metadata_head* m = !t ? 0 : i < 0 ? t->table_metadata : i < t->no_columns ? t->column_metadata[i] : 0;
		set(K_MD, hid(1), m, 0); printf("%d", m ? 0 : -1);
	}
	else if (!strcmp(op, "csnew")) { sbdf_columnslice* c = SENTINEL; e = sbdf_cs_create(&c, VA(2)); printf("%d", e); set(K_CS, hid(1), e ? 0 : c, 1); }
	else if (!strcmp(op, "csadd")) { char* n = cname(2); e = sbdf_cs_add_property(CS(1), n, VA(3)); printf("%d", e); free(n); }
	else if (!strcmp(op, "csget"))
	{
		char* n = cname(3); sbdf_valuearray* v = SENTINEL; int i, same = -1;
		e = sbdf_cs_get_property(CS(2), n, &v); printf("%d", e);
		if (!e) { for (i = 0; i < MAXH; ++i) if (OWN[K_VA][i] && H[K_VA][i] == (void*)v) { same = i; break; } if (same >= 0) printf(" same=%d", same); else printf(" same=-"); set(K_VA, hid(1), v, 0); }
		else printf(" #out=%s", outstate(v));
		free(n);
	}
	else if (!strcmp(op, "csvals")) { sbdf_columnslice* c = CS(2); set(K_VA, hid(1), c ? c->values : 0, 0); printf("%d", c ? 0 : -1); }
	else if (!strcmp(op, "csrows")) printf("%d", sbdf_cs_row_cnt(CS(1)));
	else if (!strcmp(op, "csdel")) { sbdf_cs_destroy(CS(1)); set(K_CS, hid(1), 0, 0); printf("0"); }
	else if (!strcmp(op, "csforget")) { set(K_CS, hid(1), 0, 0); printf("0"); }      /* the struct went with the owning table slice it was added to */
	else if (!strcmp(op, "csdump")) dump_cs(CS(1));
	else if (!strcmp(op, "tsnew")) { sbdf_tableslice* t = SENTINEL; e = sbdf_ts_create(TM(2), &t); printf("%d", e); set(K_TS, hid(1), e ? 0 : t, 1); }
	else if (!strcmp(op, "tsadd")) { e = sbdf_ts_add(CS(2), TS(1)); printf("%d", e); }
	else if (!strcmp(op, "tscol"))
	{
		sbdf_tableslice* t = TS(2); int i = atoi(tok[3]); sbdf_columnslice* c = (t && i >= 0 && i < t->no_columns) ? t->columns[i] : 0;
		set(K_CS, hid(1), c, 0); printf("%s", c ? "0" : "absent");
	}
	else if (!strcmp(op, "tsdel")) { sbdf_ts_destroy(TS(1)); set(K_TS, hid(1), 0, 0); printf("0"); }
	else if (!strcmp(op, "tsdump")) dump_ts(TS(1));
	else if (!strcmp(op, "out")) { set(K_OUT, hid(1), out_new(ntok > 2 ? atol(tok[2]) : -1), 1); printf("0"); }
	else if (!strcmp(op, "wfh")) printf("%d", sbdf_fh_write_cur(OUT(1)->f));
	else if (!strcmp(op, "wtm")) printf("%d", sbdf_tm_write(OUT(1)->f, TM(2)));
	else if (!strcmp(op, "wts")) printf("%d", sbdf_ts_write(OUT(1)->f, TS(2)));
	else if (!strcmp(op, "wend")) printf("%d", sbdf_ts_write_end(OUT(1)->f));
	else if (!strcmp(op, "wcs")) printf("%d", sbdf_cs_write(OUT(1)->f, CS(2)));
	else if (!strcmp(op, "wva")) printf("%d", sbdf_va_write(VA(2), OUT(1)->f));
	else if (!strcmp(op, "wobj")) printf("%d", sbdf_obj_write(OBJ(2), OUT(1)->f));
	else if (!strcmp(op, "wobja")) printf("%d", sbdf_obj_write_arr(OBJ(2), OUT(1)->f));
	else if (!strcmp(op, "wstr")) { bytes b = unhex(tok[2]); char* s = sbdf_str_create_len((char*)b.p, (int)b.n); printf("%d", sbdf_write_string(OUT(1)->f, s)); sbdf_str_destroy(s); free(b.p); }
	else if (!strcmp(op, "wi32")) printf("%d", sbdf_write_int32(OUT(1)->f, (int)atol(tok[2])));
	else if (!strcmp(op, "wi8")) printf("%d", sbdf_write_int8(OUT(1)->f, atoi(tok[2])));
	else if (!strcmp(op, "w7")) printf("%d", sbdf_write_7bitpacked_int32(OUT(1)->f, (int)atol(tok[2])));
	else if (!strcmp(op, "wsec")) printf("%d", sbdf_sec_write(OUT(1)->f, atoi(tok[2])));
	else if (!strcmp(op, "wvt")) { sbdf_valuetype vt; vt.id = atoi(tok[2]); printf("%d", sbdf_vt_write(OUT(1)->f, vt)); }
	else if (!strcmp(op, "bytes")) { ostream* o = OUT(1); printf("%zu ", o->n); puthex(o->buf, o->n); }
	else if (!strcmp(op, "in")) { bytes b = unhex(tok[2]); set(K_IN, hid(1), in_new(b.p, b.n), 1); free(b.p); printf("0"); }
	else if (!strcmp(op, "inbig"))
	{
		/* the bytes given, followed by zeros up to just over 2 GiB (a sparse file): offsets and sizes beyond INT_MAX */
		bytes b = unhex(tok[2]); istream* s = in_new(b.p, b.n); free(b.p);
		if (ftruncate(fileno(s->f), (off_t)2147483648LL + 4096) != 0) abort();
		s->len = (size_t)2147483648ULL + 4096;
		set(K_IN, hid(1), s, 1); printf("0");
	}
	else if (!strcmp(op, "inpipe")) { bytes b = unhex(tok[2]); set(K_IN, hid(1), in_pipe_new(b.p, b.n), 1); free(b.p); printf("0"); }
	else if (!strcmp(op, "inw") || !strcmp(op, "intrunc") || !strcmp(op, "inpatch") || !strcmp(op, "inapp") || !strcmp(op, "pinw") || !strcmp(op, "pinapp"))
	{
		int piped = op[0] == 'p';          /* pinw / pinapp: the same bytes behind a stream that cannot seek */
		ostream* o;
		if (piped) ++op;
		o = OUT(2); size_t n = o->n; unsigned char* p = malloc(n + strlen(ntok > 3 ? tok[ntok - 1] : "") + 8);
		memcpy(p, o->buf, n);
		if (!strcmp(op, "intrunc")) { size_t k = (size_t)atol(tok[3]); if (k < n) n = k; }
		else if (!strcmp(op, "inpatch")) { size_t off = (size_t)atol(tok[3]); bytes b = unhex(tok[4]); if (off + b.n <= n) memcpy(p + off, b.p, b.n); free(b.p); }
		else if (!strcmp(op, "inapp")) { bytes b = unhex(tok[3]); memcpy(p + n, b.p, b.n); n += b.n; free(b.p); }
		set(K_IN, hid(1), piped ? in_pipe_new(p, n) : in_new(p, n), 1); free(p); printf("%zu", n);
	}
	else if (!strcmp(op, "rfh")) { int ma = -7, mi = -7; e = sbdf_fh_read(IN(1)->f, &ma, &mi); printf("%d", e); if (!e) printf(" %d %d", ma, mi); }
	else if (!strcmp(op, "rtm")) { sbdf_tablemetadata* t = SENTINEL; e = sbdf_tm_read(IN(1)->f, &t); printf("%d", e); if (e) printf(" #out=%s", outstate(t)); set(K_TM, hid(2), e ? 0 : t, 1); }
	else if (!strcmp(op, "rts"))
	{
		sbdf_tableslice* t = SENTINEL; sbdf_tablemetadata* m = TM(3); char* sub;
		subset_of(ntok > 4 ? tok[4] : "*", m ? m->no_columns : 0, &sub);
		e = sbdf_ts_read(IN(1)->f, m, sub, &t); printf("%d", e); if (e) printf(" #out=%s", outstate(t));
		set(K_TS, hid(2), e ? 0 : t, 1); free(sub);
	}
	else if (!strcmp(op, "skts")) printf("%d", sbdf_ts_skip(IN(1)->f, TM(2)));
	else if (!strcmp(op, "rslices"))
	{   /* read slices until a non-OK status; every slice is dumped and destroyed */
		sbdf_tablemetadata* m = TM(2); char* sub; int n = 0;
		subset_of(ntok > 3 ? tok[3] : "*", m ? m->no_columns : 0, &sub);
		for (;;)
		{
			sbdf_tableslice* t = SENTINEL; e = sbdf_ts_read(IN(1)->f, m, sub, &t);
			if (e) { printf("end=%d n=%d #out=%s", e, n, outstate(t)); break; }
			dump_ts(t); putchar(' '); dec_ts(t); putchar(' '); sbdf_ts_destroy(t); ++n;
			if (n > 100000) { printf("end=RUNAWAY"); break; }
		}
		free(sub);
	}
	else if (!strcmp(op, "rcs")) { sbdf_columnslice* c = SENTINEL; e = sbdf_cs_read(IN(1)->f, &c); printf("%d", e); if (e) printf(" #out=%s", outstate(c)); set(K_CS, hid(2), e ? 0 : c, 1); }
	else if (!strcmp(op, "skcs")) printf("%d", sbdf_cs_skip(IN(1)->f));
	else if (!strcmp(op, "rva")) { sbdf_valuearray* v = SENTINEL; e = sbdf_va_read(IN(1)->f, &v); printf("%d", e); if (e) printf(" #out=%s", outstate(v)); set(K_VA, hid(2), e ? 0 : v, 1); }
	else if (!strcmp(op, "skva")) printf("%d", sbdf_va_skip(IN(1)->f));
	else if (!strcmp(op, "robj") || !strcmp(op, "robja"))
	{
		sbdf_object* o = SENTINEL; sbdf_valuetype vt; vt.id = atoi(tok[3]);
		e = !strcmp(op, "robj") ? sbdf_obj_read(IN(1)->f, vt, &o) : sbdf_obj_read_arr(IN(1)->f, vt, &o);
		printf("%d", e); if (e) printf(" #out=%s", outstate(o)); set(K_OBJ, hid(2), e ? 0 : o, 1);
	}
	else if (!strcmp(op, "skobj") || !strcmp(op, "skobja"))
	{
		sbdf_valuetype vt; vt.id = atoi(tok[2]);
		printf("%d", !strcmp(op, "skobj") ? sbdf_obj_skip(IN(1)->f, vt) : sbdf_obj_skip_arr(IN(1)->f, vt));
	}
	else if (!strcmp(op, "rstr")) { char* s = SENTINEL; e = sbdf_read_string(IN(1)->f, &s); printf("%d ", e); if (!e) { puthex((unsigned char*)s, (size_t)sbdf_str_len(s)); sbdf_str_destroy(s); } else printf("#out=%s", outstate(s)); }
	else if (!strcmp(op, "skstr")) printf("%d", sbdf_skip_string(IN(1)->f));
	else if (!strcmp(op, "ri32")) { int v = -77; e = sbdf_read_int32(IN(1)->f, &v); printf("%d", e); if (!e) printf(" %d", v); }
	else if (!strcmp(op, "ri8")) { int v = -77; e = sbdf_read_int8(IN(1)->f, &v); printf("%d", e); if (!e) printf(" %d", v); }
	else if (!strcmp(op, "r7")) { int v = -77; e = sbdf_read_7bitpacked_int32(IN(1)->f, &v); printf("%d", e); if (!e) printf(" %d", v); }
	else if (!strcmp(op, "rsec")) { int v = -77; e = sbdf_sec_read(IN(1)->f, &v); printf("%d", e); if (!e) printf(" %d", v); }
	else if (!strcmp(op, "rvt")) { sbdf_valuetype vt; vt.id = -77; e = sbdf_vt_read(IN(1)->f, &vt); printf("%d", e); if (!e) printf(" %d", vt.id); }
	else if (!strcmp(op, "pos")) printf("%ld", pos_of(IN(1)));
	else if (!strcmp(op, "len7")) printf("%d", sbdf_get_7bitpacked_len((int)atol(tok[1])));
	else if (!strcmp(op, "cap")) printf("%d", sbdf_calculate_array_capacity(atoi(tok[1])));
	else if (!strcmp(op, "usize")) { sbdf_valuetype vt; vt.id = atoi(tok[1]); printf("%d %d", sbdf_get_unpacked_size(vt), sbdf_get_packed_size(vt)); }
	else if (!strcmp(op, "isarr")) printf("%d", sbdf_ti_is_arr(atoi(tok[1])));
	else if (!strcmp(op, "vtcmp")) { sbdf_valuetype a, b; a.id = atoi(tok[1]); b.id = atoi(tok[2]); e = sbdf_vt_cmp(a, b); printf("%d", e < 0 ? -1 : e > 0 ? 1 : 0); }
	else if (!strcmp(op, "errstr")) { const char* s = sbdf_err_get_str(atoi(tok[1])); puthex((const unsigned char*)s, strlen(s)); }
	else if (!strcmp(op, "u2i") || !strcmp(op, "i2u"))
	{   /* exactly-sized heap buffers so that ASan sees any access outside the string or the output */
		bytes b = unhex(tok[1]); char* inp = malloc(b.n + 1); char* out; int n1, n2;
		memcpy(inp, b.p, b.n); inp[b.n] = 0;
		n1 = !strcmp(op, "u2i") ? sbdf_convert_utf8_to_iso88591(inp, 0) : sbdf_convert_iso88591_to_utf8(inp, 0);
		out = malloc(n1 > 0 ? (size_t)n1 : 1);
		n2 = !strcmp(op, "u2i") ? sbdf_convert_utf8_to_iso88591(inp, out) : sbdf_convert_iso88591_to_utf8(inp, out);
		printf("%d %d ", n1, n2); puthex((unsigned char*)out, n2 > 0 ? (size_t)n2 : 0);
		free(inp); free(out); free(b.p);
	}
	else if (!strcmp(op, "ledger")) printf("0");
	else if (!strcmp(op, "nallocs")) printf("%ld", vf_count);
	else if (!strcmp(op, "nlive")) printf("%ld", vf_live);
	else if (!strcmp(op, "allocfail")) { vf_fail_at = vf_count + atol(tok[1]); printf("0"); }
	else if (!strcmp(op, "allocs")) printf("# %ld", vf_count);
	else if (!strcmp(op, "live")) printf("# %ld", vf_live);
	else if (!strcmp(op, "noise"))
	{   /* unrelated heap and API activity between two runs of the same script (history independence) */
		unsigned s = (unsigned)atoi(tok[1]); int i; void* junk[64]; int nj = 0;
		for (i = 0; i < 200; ++i)
		{
			s = s * 1103515245u + 12345u;
			if (nj < 64 && (s >> 16) % 3) { junk[nj] = malloc(1 + (s >> 8) % 300); memset(junk[nj], (int)s, 1); ++nj; }
			else if (nj) free(junk[--nj]);
		}
		{ int x = (int)s; sbdf_object* o; sbdf_valuearray* v; sbdf_obj_create_arr(sbdf_vt_int(), 1, &x, 0, &o); sbdf_va_create_rle(o, &v); sbdf_va_destroy(v); sbdf_obj_destroy(o); }
		while (nj) free(junk[--nj]);
		printf("0");
	}
	else { printf("?"); fprintf(stderr, "unknown op %s at line %d\n", op, lineno); exit(3); }
	putchar('\n');
}

/* a complete reading session on one input: header, table metadata, every accessor on it, slices
   (mode "*": all columns, "skip": sbdf_ts_skip, otherwise a subset string) with raw and decoded
   dumps, then everything that was read is written back and destroyed */
static void run_session(istream* in, const char* mode)
{
	int ma = -7, mi = -7, e, i, n = 0; sbdf_tablemetadata* tm = SENTINEL; char* sub = 0;
	sbdf_tableslice* kept[64]; int nk = 0; ostream* o; int badout = 0;
	e = sbdf_fh_read(in->f, &ma, &mi);
	printf("fh=%d", e); if (e) return;
	printf(":%d.%d", ma, mi);
	e = sbdf_tm_read(in->f, &tm);
	printf(" tm=%d", e); if (e) { printf(" #out=%s", outstate(tm)); return; }
	putchar(' '); dump_tm(tm);
	for (i = 0; i < tm->no_columns && i < 64; ++i)
	{
		char* nm = SENTINEL; sbdf_valuetype vt; int e1, e2; vt.id = -77;
		e1 = sbdf_cm_get_name(tm->column_metadata[i], &nm); e2 = sbdf_cm_get_type(tm->column_metadata[i], &vt);
		printf(" c%d=%d:", i, e1); if (!e1) { puthex((unsigned char*)nm, (size_t)sbdf_str_len(nm)); sbdf_str_destroy(nm); }
		printf(":%d:%d", e2, e2 ? 0 : vt.id);
	}
	if (!strcmp(mode, "skip"))
	{
		for (;;) { e = sbdf_ts_skip(in->f, tm); if (e) break; if (++n > 100000) { e = 12345; break; } }
	}
	else
	{
		subset_of(mode, tm->no_columns, &sub);
		for (;;)
		{
			sbdf_tableslice* t = SENTINEL; e = sbdf_ts_read(in->f, tm, sub, &t);
			if (e) { if (t != SENTINEL && t != 0) badout = 1; break; }
			putchar(' '); dump_ts(t); putchar(' '); dec_ts(t); ++n;
			if (nk < 64) kept[nk++] = t; else sbdf_ts_destroy(t);
			if (n > 100000) { e = 12345; break; }
		}
		free(sub);
	}
	printf(" end=%d n=%d", e, n);
	if (e == SBDF_TABLEEND) printf(" pos=%ld", pos_of(in));
	o = out_new(-1);
	e = sbdf_fh_write_cur(o->f);
	if (!e) e = sbdf_tm_write(o->f, tm);
	for (i = 0; i < nk && !e; ++i) e = sbdf_ts_write(o->f, kept[i]);
	if (!e) e = sbdf_ts_write_end(o->f);
	printf(" rw=%d:", e); puthex(o->buf, o->n);
	fclose(o->f); free(o->buf); free(o);
	for (i = 0; i < nk; ++i) sbdf_ts_destroy(kept[i]);
	sbdf_tm_destroy(tm);
	if (badout) printf(" #out=set");
}

static int is_status_op(const char* op)
{
	static const char* ops[] = {"obj", "objs", "ocopy", "va", "vaget", "mdnew", "mdadd", "mdaddstr", "mdaddint", "mdrm", "mdget", "mddflt",
		"mdcopy", "mdfreeze", "cmset", "cmname", "cmtype", "tmnew", "tmadd", "csnew", "csadd", "csget", "tsnew", "tsadd", "wfh", "wtm", "wts",
		"wend", "wcs", "wva", "wobj", "wobja", "wstr", "wi32", "wi8", "w7", "wsec", "wvt", "rfh", "rtm", "rts", "skts", "rcs", "skcs", "rva",
		"skva", "robj", "robja", "skobj", "skobja", "rstr", "skstr", "ri32", "ri8", "r7", "rsec", "rvt", 0};
	int i;
	for (i = 0; ops[i]; ++i) if (!strcmp(op, ops[i])) return 1;
	return 0;
}

static void cleanup_case(void)
{
	int i;
	for (i = 0; i < MAXH; ++i) if (OWN[K_TS][i] && H[K_TS][i]) sbdf_ts_destroy(H[K_TS][i]);
	for (i = 0; i < MAXH; ++i) if (OWN[K_CS][i] && H[K_CS][i]) sbdf_cs_destroy(H[K_CS][i]);
	for (i = 0; i < MAXH; ++i) if (OWN[K_TM][i] && H[K_TM][i]) sbdf_tm_destroy(H[K_TM][i]);
	for (i = 0; i < MAXH; ++i) if (OWN[K_MD][i] && H[K_MD][i]) sbdf_md_destroy(H[K_MD][i]);
	for (i = 0; i < MAXH; ++i) if (OWN[K_VA][i] && H[K_VA][i]) sbdf_va_destroy(H[K_VA][i]);
	for (i = 0; i < MAXH; ++i) if (OWN[K_OBJ][i] && H[K_OBJ][i]) sbdf_obj_destroy(H[K_OBJ][i]);
	printf("# end live=%ld refused=%d\n", vf_live, vf_refused);
}

int main(int argc, char** argv)
{
	FILE* f; char* line = 0; size_t cap = 0; ssize_t n; int nofork = argc > 2 && !strcmp(argv[2], "-nofork");
	char** caselines = 0; int* caselno = 0; size_t nl = 0, capl = 0; char caseid[256] = "";
	int fileline = 0;
	if (argc < 2) { fprintf(stderr, "usage: harness script [-nofork]\n"); return 2; }
	f = fopen(argv[1], "r"); if (!f) { perror(argv[1]); return 2; }
	setvbuf(stdout, 0, _IOFBF, 1 << 16);
	LF = stdout;
	for (;;)
	{
		int eof, iscase;
		n = getline(&line, &cap, f); eof = n < 0;
		if (!eof) { ++fileline; while (n > 0 && (line[n - 1] == '\n' || line[n - 1] == '\r')) line[--n] = 0; }
		iscase = !eof && !strncmp(line, "case ", 5);
		if ((eof || iscase) && (nl || caseid[0]))
		{
			pid_t pid; int st = 0; char errf[64];
			printf("case %s\n", caseid); fflush(stdout);
			snprintf(errf, sizeof errf, "/dev/shm/vf-err-%d", (int)getpid());
			pid = nofork ? 0 : fork();
			if (pid == 0)
			{
				size_t i;
				if (!nofork) { if (!freopen(errf, "w", stderr)) _exit(9); alarm(120); }
				for (i = 0; i < nl; ++i)
				{
					char* p = caselines[i]; ntok = 0; lineno = caselno[i];
					while (*p && ntok < MAXTOK) { while (*p == ' ') ++p; if (!*p) break; tok[ntok++] = p; while (*p && *p != ' ') ++p; if (*p) *p++ = 0; }
					if (!ntok || tok[0][0] == '#') continue;
					{
						char* lb = 0; size_t ln = 0; LF = open_memstream(&lb, &ln);
						run_line();
						fclose(LF); LF = stdout;
						fputs(lb, stdout);
						if (strict && is_status_op(tok[0]))
						{   /* "<lineno> <op> <status>..." */
							char* q = strchr(lb, ' '); q = q ? strchr(q + 1, ' ') : 0;
							if (q && atoi(q + 1) != 0)
							{   /* skip to the epilogue (observations of what was built before), if there is one */
								free(lb); fputs("# stopped after the first failing call\n", stdout);
								while (i + 1 < nl && strcmp(caselines[i + 1], "epilogue")) ++i;
								continue;
							}
						}
						free(lb);
					}
				}
				cleanup_case();
				fflush(stdout);
				if (!nofork) _exit(0);
			}
			else
			{
				waitpid(pid, &st, 0);
				if (!(WIFEXITED(st) && WEXITSTATUS(st) == 0))
				{
					FILE* ef = fopen(errf, "r"); char buf[512]; char summary[512] = "";
					if (ef) { while (fgets(buf, sizeof buf, ef)) if (strstr(buf, "SUMMARY:") || strstr(buf, "runtime error:") || (strstr(buf, "ERROR:") && !summary[0])) { strncpy(summary, buf, sizeof summary - 1); if (strstr(buf, "SUMMARY:")) break; } fclose(ef); }
					{ size_t l = strlen(summary); while (l && (summary[l - 1] == '\n')) summary[--l] = 0; }
					printf("\n# CRASH status=%d signal=%d %s\n", WIFEXITED(st) ? WEXITSTATUS(st) : -1, WIFSIGNALED(st) ? WTERMSIG(st) : 0, summary);
				}
				unlink(errf);
			}
			{ size_t i; for (i = 0; i < nl; ++i) free(caselines[i]); nl = 0; }
			memset(H, 0, sizeof H); memset(OWN, 0, sizeof OWN);
		}
		if (eof) break;
		if (iscase) { strncpy(caseid, line + 5, sizeof caseid - 1); continue; }
		if (nl == capl) { capl = capl * 2 + 64; caselines = realloc(caselines, capl * sizeof *caselines); caselno = realloc(caselno, capl * sizeof *caselno); }
		caselines[nl] = strdup(line); caselno[nl] = fileline; ++nl;
	}
	fflush(stdout);
	return 0;
}
