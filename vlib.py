#!/usr/bin/env python3
"""vlib.py - shared machinery of the checks: builds (Coq, extracted model, C harness), running
case scripts on both sides, the correspondence diff, oracles, known findings, replay files and
evidence.  See DESIGN.md section 4."""
import os, sys, json, time, subprocess, hashlib, random, fcntl, re, shutil, struct
from concurrent.futures import ThreadPoolExecutor

V = os.path.dirname(os.path.abspath(__file__))
REPO = os.environ.get("SBDF_REPO", "/repo")
CACHE = os.path.join(V, ".cache")
COQ = os.path.join(V, "coq")
NCPU = min(16, os.cpu_count() or 4)
ENV = dict(os.environ, ASAN_OPTIONS="allocator_may_return_null=1:detect_leaks=0:abort_on_error=0",
           UBSAN_OPTIONS="print_stacktrace=0")


def sh(cmd, timeout=None, cwd=None, env=None, inp=None):
    return subprocess.run(cmd, shell=isinstance(cmd, str), capture_output=True, text=True,
                          timeout=timeout, cwd=cwd, env=env or ENV, input=inp)


class Lock:
    def __init__(self, name="lock"):
        os.makedirs(CACHE, exist_ok=True)
        self.path = os.path.join(CACHE, name)
    def __enter__(self):
        self.f = open(self.path, "w")
        fcntl.flock(self.f, fcntl.LOCK_EX)
        return self
    def __exit__(self, *a):
        fcntl.flock(self.f, fcntl.LOCK_UN)
        self.f.close()


# ----------------------------------------------------------------------------- builds
def regenerate():
    """Everything that is derived from /repo's working tree on every run."""
    out = []
    for tool in ("gen_consts.py", "srcfacts.py", "c2gallina.py", "c2imp.py"):
        p = os.path.join(V, "tools", tool)
        if os.path.exists(p):
            r = sh([sys.executable, p], timeout=300)
            out.append((tool, r.returncode, (r.stdout + r.stderr).strip()))
    return out


def coq_make(targets, timeout=3000):
    """make -k the given .vo targets (full .vo build). Returns (ok, log)."""
    if not os.path.exists(os.path.join(COQ, "Makefile")):
        sh("coq_makefile -f _CoqProject -o Makefile", cwd=COQ, timeout=120)
    r = sh(["make", "-k", "-j%d" % NCPU] + list(targets), cwd=COQ, timeout=timeout)
    log = "\n".join(l for l in (r.stdout + r.stderr).splitlines() if "conda" not in l)
    return r.returncode == 0, log


def build_model():
    r = sh([os.path.join(V, "tools", "build_model.sh")], timeout=3600)
    drv = os.path.join(CACHE, "model", "driver")
    if not os.path.exists(drv):
        raise RuntimeError("model driver build failed:\n" + r.stdout + r.stderr)
    return drv


def build_harness(variant="asan"):
    r = sh([os.path.join(V, "tools", "build_harness.sh"), variant], timeout=600)
    path = r.stdout.strip().splitlines()[-1] if r.stdout.strip() else ""
    if r.returncode != 0 or not os.path.exists(path):
        return None, (r.stdout + r.stderr)
    return path, ""


def hygiene():
    """No Admitted/admit/Axiom/Parameter/Conjecture/Admit Obligations, no guard or universe switches; Variable / Hypothesis /
    Context only inside a Section.  Comments are ignored.  Returns the offending lines."""
    bad = []
    for root, _, files in os.walk(COQ):
        for f in files:
            if not f.endswith(".v"): continue
            text = open(os.path.join(root, f), errors="replace").read()
            text = re.sub(r"\(\*.*?\*\)", lambda m: "\n" * m.group(0).count("\n"), text, flags=re.S)
            depth = 0
            for ln, line in enumerate(text.split("\n"), 1):
                if re.match(r"\s*Section\b", line): depth += 1
                elif re.match(r"\s*End\b", line) and depth > 0: depth -= 1
                if re.search(r"\b(Admitted|admit|Axiom|Axioms|Parameter|Parameters|Conjecture|Admit Obligations|bypass_check|Unset Guard Checking|Unset Positivity Checking|Unset Universe Checking|type-in-type|impredicative-set)\b", line):
                    bad.append("%s:%d: %s" % (os.path.relpath(os.path.join(root, f), COQ), ln, line.strip()[:100]))
                elif depth == 0 and re.match(r"\s*(Variable|Variables|Hypothesis|Hypotheses|Context)\b", line):
                    bad.append("%s:%d (outside a section): %s" % (os.path.relpath(os.path.join(root, f), COQ), ln, line.strip()[:100]))
    return bad


THEOREM_RE = re.compile(r"^\s*(Theorem|Corollary)\s+([A-Za-z0-9_']+)", re.M)


def check_props(prop_id, timeout=3000):
    """Builds Props/<id>.vo's dependencies with make, then compiles Props/<id>.v itself with coqc so
    that the Print Assumptions output of this run is captured.  Returns a dict."""
    src = os.path.join(COQ, "Props", prop_id + ".v")
    text = open(src).read()
    theorems = [m.group(2) for m in THEOREM_RE.finditer(text)]
    res = {"file": "coq/Props/%s.v" % prop_id, "theorems": theorems, "obligations": len(theorems),
           "discharged": 0, "assumptions": {}, "log": "", "ok": False, "hygiene": []}
    # hygiene: nothing admitted or assumed anywhere in the development
    res["hygiene"] = hygiene()
    with Lock():
        deps_ok, log = coq_make(["Props/%s.vo" % prop_id], timeout)
    res["log"] = log[-6000:]
    if not deps_ok:
        m = re.search(r'File "([^"]+)", line (\d+), characters[^\n]*\n(Error:[^\n]*(\n[^\n]+){0,6})', log)
        res["failure"] = {"file": m.group(1), "line": int(m.group(2)), "error": m.group(3)[:800]} if m else {"error": log[-1500:]}
        return res
    pdir = os.path.join(CACHE, "props-%d" % os.getpid())
    os.makedirs(pdir, exist_ok=True)
    r = sh(["coqc", "-Q", ".", "Sbdf", "Props/%s.v" % prop_id, "-o", os.path.join(pdir, "%s.vo" % prop_id)],
           cwd=COQ, timeout=600)
    shutil.rmtree(pdir, ignore_errors=True)
    out = r.stdout + r.stderr
    if r.returncode != 0:
        res["failure"] = {"error": out[-1500:]}
        return res
    # Print Assumptions output follows each theorem in file order
    blocks = re.split(r"(?=Closed under the global context|Axioms:)", out)
    blocks = [b for b in blocks if b.startswith("Closed") or b.startswith("Axioms:")]
    for name, b in zip(theorems, blocks):
        res["assumptions"][name] = "closed" if b.startswith("Closed") else " ".join(b.split())[:400]
    res["discharged"] = len(theorems)
    res["ok"] = True
    return res


# ----------------------------------------------------------------------------- running cases
class Case:
    __slots__ = ("cid", "lines", "oracle", "nontrivial", "meta", "compare")
    def __init__(self, cid, lines, oracle=None, nontrivial=True, meta=None, compare=True):
        self.cid, self.lines, self.oracle, self.nontrivial = cid, lines, oracle, nontrivial
        self.meta = meta or {}
        self.compare = compare          # False: C-only case (no model run)

    def digest(self):
        return hashlib.sha1("\n".join(self.lines).encode()).hexdigest()


LINE_RE = re.compile(r"^(\d+) (\S+) ?(.*)$")


class Obs:
    """Observations of one case on one side."""
    def __init__(self):
        self.lines = {}      # local line index -> (op, payload)
        self.ann = {}        # local line index -> C-only annotation
        self.crash = None
        self.end = None

    def val(self, i):
        return self.lines.get(i, (None, None))[1]


def _parse(text, starts, is_c):
    """Splits the output of a shard into per-case observations; line numbers become case-local."""
    res = {}
    cur = None; base = 0
    for raw in text.split("\n"):
        if raw.startswith("case "):
            cid = raw[5:]
            cur = Obs(); res[cid] = cur; base = starts.get(cid, 0)
            continue
        if cur is None or not raw:
            continue
        if raw.startswith("#"):
            if raw.startswith("# CRASH"):
                cur.crash = raw[2:]
            elif raw.startswith("# end"):
                m = re.search(r"live=(-?\d+) refused=(\d+)", raw)
                if m: cur.end = {"live": int(m.group(1)), "refused": int(m.group(2))}
            continue
        m = LINE_RE.match(raw)
        if not m:
            continue
        ln, op, payload = int(m.group(1)) - base, m.group(2), m.group(3)
        ann = None
        if is_c and "#" in payload:
            k = payload.index("#")
            ann = payload[k + 1:].strip(); payload = payload[:k]
        payload = payload.rstrip()
        cur.lines[ln] = (op, payload)
        if ann is not None:
            cur.ann[ln] = ann
    return res


def run_cases(cases, harness, driver, swp=False, cap=1 << 26, rundir=None, jobs=NCPU, timeout=1800):
    """Runs the cases on the C harness and (for comparable cases) on the model driver.
    Returns dict cid -> (c_obs, m_obs_or_None)."""
    rundir = rundir or os.path.join(CACHE, "run", "%d-%d" % (os.getpid(), int(time.time() * 1000) % 100000))
    os.makedirs(rundir, exist_ok=True)
    nsh = max(1, min(jobs, (len(cases) + 7) // 8))
    shards = [cases[i::nsh] for i in range(nsh)]
    jobs_l = []
    for k, shard in enumerate(shards):
        path = os.path.join(rundir, "s%d.txt" % k)
        mpath = os.path.join(rundir, "m%d.txt" % k)
        starts = {}
        n = 0
        with open(path, "w") as f, open(mpath, "w") as fm:
            for c in shard:
                f.write("case %s\n" % c.cid); n += 1
                # the model script keeps the same line numbers
                fm.write(("case %s\n" % c.cid) if c.compare else "\n")
                starts[c.cid] = n
                for l in c.lines:
                    f.write(l + "\n"); fm.write((l + "\n") if c.compare else "\n"); n += 1
        jobs_l.append((path, mpath, starts, any(c.compare for c in shard)))

    def run_one(job):
        path, mpath, starts, need_model = job
        rc = sh([harness, path], timeout=timeout)
        cobs = _parse(rc.stdout, starts, True)
        mobs = {}
        merr = ""
        if need_model and driver:
            rm = sh("ulimit -s unlimited 2>/dev/null || ulimit -s 1000000; exec %s %s %d %s" %
                    (driver, mpath, 1 if swp else 0, "none" if cap is None else str(cap)), timeout=timeout)
            mobs = _parse(rm.stdout, starts, False)
            merr = rm.stderr
        return cobs, mobs, rc.stderr, merr

    out = {}
    with ThreadPoolExecutor(max_workers=jobs) as ex:
        for cobs, mobs, cerr, merr in ex.map(run_one, jobs_l):
            for cid, o in cobs.items():
                out[cid] = (o, mobs.get(cid))
            if merr.strip() and "conda" not in merr:
                sys.stderr.write("model driver stderr: " + merr[:500] + "\n")
    shutil.rmtree(rundir, ignore_errors=True)
    return out


def diff_obs(c, m):
    """First differing observation lines between C and model (model-undefined lines end the comparison)."""
    diffs = []
    if m is None:
        return diffs
    for ln in sorted(set(c.lines) | set(m.lines)):
        cm, mm = c.lines.get(ln), m.lines.get(ln)
        if mm is not None and mm[1].startswith("MODEL-"):
            break
        if cm is None:
            if c.crash: break
            diffs.append((ln, mm[0], None, mm[1])); continue
        if mm is None:
            diffs.append((ln, cm[0], cm[1], None)); continue
        if cm[1] != mm[1]:
            diffs.append((ln, cm[0], cm[1], mm[1]))
    return diffs


# ----------------------------------------------------------------------------- known findings
def load_known():
    p = os.path.join(V, "known_findings.json")
    if not os.path.exists(p):
        return []
    return json.load(open(p)).get("findings", [])


def match_known(prop_id, signature, known=None):
    """signature: a short stable string naming the failing input / call site / history."""
    for k in (known if known is not None else load_known()):
        if k.get("property") == prop_id and k.get("status") == "open" and k.get("match") and k["match"] in signature:
            return k
    return None


# ----------------------------------------------------------------------------- data helpers for generators
FIXED = {1: 1, 2: 4, 3: 8, 4: 4, 5: 8, 6: 8, 7: 8, 8: 8, 9: 8, 13: 16}
ALLTYPES = [1, 2, 3, 4, 5, 6, 7, 8, 9, 10, 12, 13]
STRING, BINARY, BOOL, INT = 10, 12, 1, 2


def hx(b):
    return b.hex() if b else "-"


def rand_elem(rng, ty, small=False):
    if ty in FIXED:
        sz = FIXED[ty]
        if ty == BOOL:
            return bytes([rng.choice([0, 1, 1, 0, 2, 255]) if not small else rng.choice([0, 1])])
        k = rng.random()
        if small or k < 0.5:
            return bytes([rng.choice([0, 1, 0x7f, 0x80, 0xff])]) + bytes(sz - 1) if rng.random() < 0.7 else bytes(sz - 1) + bytes([rng.choice([0x80, 0x7f, 1])])
        if k < 0.6 and ty in (4, 5):   # NaNs with payloads, +-0
            if ty == 4: return struct.pack("<I", rng.choice([0x7fc00000, 0x7fc00001, 0xffc00000, 0x80000000, 0, 0x7f800001]))
            return struct.pack("<Q", rng.choice([0x7ff8000000000000, 0x7ff8000000000001, 0xfff8000000000000, 0x8000000000000000, 0, 0x7ff0000000000001]))
        return bytes(rng.getrandbits(8) for _ in range(sz))
    # string / binary
    k = rng.random()
    if small:
        return rng.choice([b"", b"a", b"ab", b"abc", b"b", b"a\0b", b"a\0c", b"\0"]) if ty == BINARY or True else b""
    if k < 0.15: n = 0
    elif k < 0.75: n = rng.randint(1, 12)
    elif k < 0.9: n = rng.choice([126, 127, 128, 129, 130, 255, 256])
    elif k < 0.97: n = rng.randint(13, 400)
    else: n = rng.choice([16382, 16383, 16384, 16385])
    alpha = rng.choice([b"ab", b"abc\0", bytes(range(256)), b"\0\x01\x7f\x80\xff", b"xyz"])
    return bytes(rng.choice(alpha) for _ in range(n))


def rand_array(rng, ty, n, style=None):
    """n elements of type ty in one of several shapes (runs, all equal, all distinct, alternating)."""
    style = style or rng.choice(["runs", "runs", "equal", "alt", "random", "small"] + (["nulfam", "nulfam"] if ty in (STRING, BINARY) else []))
    if n == 0:
        return []
    if style == "nulfam":
        # neighbours that agree up to an embedded NUL (same and different lengths): what strcmp/strlen-style code confuses
        p = rng.choice([b"", b"a", b"abc", b"xy"])
        a, b = rng.sample([b"d", b"e", b"dd", b"\x01", b"z"], 2)
        fam = [p, p + b"\0", p + b"\0" + a, p + b"\0" + b, p + b"\0\0", p + b"\0" + a + b"\0", b"", b"\0"]
        fam = rng.sample(fam, rng.choice([2, 3, 4, 8]))
        if rng.random() < 0.5:
            return [rng.choice(fam) for _ in range(n)]
        out = []
        while len(out) < n:
            out += [rng.choice(fam)] * rng.choice([1, 1, 2, 3])
        return out[:n]
    if style == "equal":
        e = rand_elem(rng, ty); return [e] * n
    if style == "alt":
        a, b = rand_elem(rng, ty), rand_elem(rng, ty); return [a if i % 2 == 0 else b for i in range(n)]
    if style == "random":
        return [rand_elem(rng, ty) for _ in range(n)]
    if style == "small":
        pool = [rand_elem(rng, ty, small=True) for _ in range(3)]
        return [rng.choice(pool) for _ in range(n)]
    out = []
    while len(out) < n:
        e = rand_elem(rng, ty, small=rng.random() < 0.5)
        r = rng.choice([1, 1, 2, 3, 7, 8, 9, 254, 255, 256, 257, 258, 511, 512, 513, rng.randint(1, 40)])
        out += [e] * r
    return out[:n]


def obj_line(h, ty, elems, strlen_path=False):
    return "%s %d %d %d %s" % ("objs" if strlen_path else "obj", h, ty, len(elems), " ".join(hx(e) for e in elems)) if elems \
        else "%s %d %d 0" % ("objs" if strlen_path else "obj", h, ty)


def obj_dump(ty, elems):
    return "{%d %d%s}" % (ty, len(elems), "".join(" " + hx(e) for e in elems))


def le32(v):
    return struct.pack("<i", v)


def name_hex(s):
    return hx(s if isinstance(s, bytes) else s.encode())


# ----------------------------------------------------------------------------- evidence / replay
def write_json(path, obj):
    os.makedirs(os.path.dirname(path), exist_ok=True)
    tmp = path + ".tmp"
    with open(tmp, "w") as f:
        json.dump(obj, f, indent=1, sort_keys=True)
    os.replace(tmp, path)


def repo_state():
    r = sh("git -C %s rev-parse HEAD; git -C %s status --porcelain -- src include | head -20" % (REPO, REPO))
    return r.stdout.strip().splitlines()
